//! Lane `esc` (property C08): escaping and validation of inserted content, on the REAL lol-html.
//!
//!   body <hex utf8>                                   lol_html::verif_hooks::escape_body_text
//!   attrv <hex>                                       lol_html::verif_hooks::escape_double_quotes_only
//!   comment <hex utf8> <enc>                          Comment::set_text on `<!--x-->`
//!   attrname <hex utf8> <hex utf8 value> <enc> <doc>  Element::set_attribute on document <doc>
//!   tagname <hex utf8> <enc> <doc>                    Element::set_tag_name on document <doc>
//!
//!   attrseq <enc> <hex utf8 name> <hex of the lower-cased name in <enc>> <hex source attr name|-> <hex v1> <hex v2>
//!                                                     two `set_attribute(name, v)` calls on `<a>` / `<a SRC=0>`; enc also sjis|big5|gbk
//!                                                     (finding F22: case-insensitive comparison on ENCODED bytes)
//!
//! Observation: `<kind> <result> <hex of the serialised output>` (diffed with the Lean model).
//! Oracle (independent of the model): the output is re-tokenised with lol-html itself (a second
//! rewriter with observers) and with html5ever's tokenizer; the token structure must be the original
//! plus exactly the inserted piece, and a rejected input must leave the output equal to the input.
//! Violations are appended as ` ||ORACLE:C08:<site-tag> ...`.
use crate::util::*;
use encoding_rs::{BIG5, Encoding, GBK, SHIFT_JIS, UTF_8, X_USER_DEFINED};
use lol_html::errors::{AttributeNameError, CommentTextError, TagNameError};
use lol_html::html_content::ContentType;
use lol_html::{AsciiCompatibleEncoding, HtmlRewriter, Settings, doc_comments, doc_text, element};
use std::cell::RefCell;
use std::rc::Rc;

#[derive(Debug, Clone, PartialEq, Eq)]
enum Tok {
    Start { name: String, attrs: Vec<(String, String)>, sc: bool },
    End(String),
    Text(String),
    Comment(String),
    Other(String),
}

fn enc_of(s: &str) -> Option<&'static Encoding> {
    match s {
        "utf8" => Some(UTF_8),
        "xud" => Some(X_USER_DEFINED),
        "sjis" => Some(SHIFT_JIS),
        "big5" => Some(BIG5),
        "gbk" => Some(GBK),
        _ => None,
    }
}

fn rewrite<'h>(doc: &[u8], enc: &'static Encoding, settings: Settings<'h, '_>) -> Result<Vec<u8>, String> {
    let mut out = Vec::new();
    {
        let settings = settings.with_encoding(AsciiCompatibleEncoding::new(enc).unwrap());
        let mut rw = HtmlRewriter::new(settings, |c: &[u8]| out.extend_from_slice(c));
        rw.write(doc).map_err(|e| format!("{e:?}"))?;
        rw.end().map_err(|e| format!("{e:?}"))?;
    }
    Ok(out)
}

fn push_text(toks: &mut Vec<Tok>, s: &str) {
    if s.is_empty() {
        return;
    }
    if let Some(Tok::Text(t)) = toks.last_mut() {
        t.push_str(s);
    } else {
        toks.push(Tok::Text(s.to_string()));
    }
}

/// Token structure of `bytes` as seen by lol-html itself (observers only).
fn lol_tokens(bytes: &[u8], enc: &'static Encoding) -> Result<Vec<Tok>, String> {
    let toks: Rc<RefCell<Vec<Tok>>> = Rc::new(RefCell::new(vec![]));
    let (t1, t2, t3) = (toks.clone(), toks.clone(), toks.clone());
    let settings = Settings::new()
        .append_element_content_handler(element!("*", move |el| {
            t1.borrow_mut().push(Tok::Start {
                name: el.tag_name(),
                attrs: el.attributes().iter().map(|a| (a.name(), a.value())).collect(),
                sc: el.is_self_closing(),
            });
            let t = t1.clone();
            if el.can_have_content() {
                let _ = el.on_end_tag(lol_html::end_tag!(move |end| {
                    t.borrow_mut().push(Tok::End(end.name()));
                    Ok(())
                }));
            }
            Ok(())
        }))
        .append_document_content_handler(doc_comments!(move |c| {
            t2.borrow_mut().push(Tok::Comment(c.text()));
            Ok(())
        }))
        .append_document_content_handler(doc_text!(move |t| {
            push_text(&mut t3.borrow_mut(), t.as_str());
            Ok(())
        }));
    rewrite(bytes, enc, settings)?;
    let r = toks.borrow().clone();
    Ok(r)
}

struct H5Sink(RefCell<Vec<Tok>>);
impl html5ever::tokenizer::TokenSink for H5Sink {
    type Handle = ();
    fn process_token(&self, token: html5ever::tokenizer::Token, _l: u64) -> html5ever::tokenizer::TokenSinkResult<()> {
        use html5ever::tokenizer::{TagKind, Token};
        let mut v = self.0.borrow_mut();
        match token {
            Token::CharacterTokens(s) => push_text(&mut v, &s),
            Token::NullCharacterToken => push_text(&mut v, "\0"),
            Token::TagToken(t) => match t.kind {
                TagKind::StartTag => v.push(Tok::Start {
                    name: t.name.to_string(),
                    attrs: t.attrs.iter().map(|a| (a.name.local.to_string(), a.value.to_string())).collect(),
                    sc: t.self_closing,
                }),
                TagKind::EndTag => v.push(Tok::End(t.name.to_string())),
            },
            Token::CommentToken(s) => v.push(Tok::Comment(s.to_string())),
            Token::DoctypeToken(_) => v.push(Tok::Other("doctype".into())),
            Token::ParseError(_) | Token::EOFToken => {}
        }
        html5ever::tokenizer::TokenSinkResult::Continue
    }
}

/// Token structure of `bytes` (decoded with `enc`) as seen by html5ever's WHATWG tokenizer.
fn h5e_tokens(bytes: &[u8], enc: &'static Encoding) -> Vec<Tok> {
    use html5ever::tendril::StrTendril;
    use html5ever::tokenizer::{BufferQueue, Tokenizer, TokenizerOpts};
    let (text, _) = enc.decode_without_bom_handling(bytes);
    let input = BufferQueue::default();
    input.push_back(StrTendril::from(&*text));
    let tok = Tokenizer::new(
        H5Sink(RefCell::new(vec![])),
        TokenizerOpts { discard_bom: false, ..Default::default() },
    );
    let _ = tok.feed(&input);
    tok.end();
    tok.sink.0.into_inner()
}

/// What the WHATWG input-stream preprocessing + tokenizer do to literal characters that are kept:
/// CRLF / CR -> LF; (in comment / attribute / tag-name context) NUL -> U+FFFD.
fn norm(s: &str, nul: bool) -> String {
    let s = s.replace("\r\n", "\n").replace('\r', "\n");
    if nul { s.replace('\0', "\u{FFFD}") } else { s }
}

/// lol-html's read accessors (`Comment::text`, `Attribute::value`, ...) decode with
/// `Encoding::decode_without_bom_handling` (base/bytes.rs `as_string`; the BOM-sniffing `decode` they used
/// before was a finding, repaired). The lol-html side of the oracle compares with what an exact decode
/// returns for the bytes that were written; the html5ever side compares with the string itself.
fn readback(enc: &'static Encoding, s: &str) -> String {
    let (b, _, _) = enc.encode(s);
    enc.decode_without_bom_handling(&b).0.into_owned()
}

fn lower(s: &str) -> String {
    s.to_ascii_lowercase()
}

/// Names whose content model differs from the renamed `<a>` (documented caveat of set_tag_name:
/// "the new tag name must have the same content model"). lol-html's own re-tokenisation switches
/// text mode after them, so the strict structural comparison is skipped on that side.
const TEXT_MODE_TAGS: [&str; 27] = [
    "textarea", "title", "plaintext", "script", "style", "iframe", "xmp", "noembed", "noframes", "noscript",
    // void elements (no end-tag event in lol-html)
    "area", "base", "basefont", "bgsound", "br", "col", "embed", "hr", "img", "input", "keygen", "link", "meta",
    "param", "source", "track", "wbr",
];

struct Flags(Vec<String>);
impl Flags {
    fn add(&mut self, tag: &str, msg: String) {
        self.0.push(format!(" ||ORACLE:C08:{tag} {}", msg.replace('\n', "\\n")));
    }
    fn check(&mut self, tag: &str, got: &Result<Vec<Tok>, String>, want: &[Tok]) {
        match got {
            Ok(g) if g.as_slice() == want => {}
            other => self.add(tag, format!("got {other:?} want {want:?}")),
        }
    }
    fn fin(self, line: String) -> String {
        let mut l = line;
        if let Some(f) = self.0.into_iter().next() {
            l.push_str(&f);
        }
        l
    }
}

fn start(name: &str, attrs: &[(&str, &str)], sc: bool) -> Tok {
    Tok::Start { name: name.into(), attrs: attrs.iter().map(|(a, b)| (a.to_string(), b.to_string())).collect(), sc }
}

fn attr_docs(d: &str) -> Option<(&'static [u8], Vec<(&'static str, &'static str)>, bool)> {
    Some(match d {
        "0" => (b"<a>", vec![], false),
        "1" => (b"<a b=c>", vec![("b", "c")], false),
        "2" => (b"<a B=\"c\" d/>", vec![("b", "c"), ("d", "")], true),
        _ => return None,
    })
}

/// (document, start-tag name, attrs, self-closing, tokens after the start tag with the end-tag name as "\u{1}")
fn tag_docs(d: &str) -> Option<(&'static [u8], Vec<(&'static str, &'static str)>, bool, Vec<Tok>)> {
    Some(match d {
        "0" => (b"<a>x</a>", vec![], false, vec![Tok::Text("x".into()), Tok::End("\u{1}".into())]),
        "1" => (b"<a b=c>x</A >", vec![("b", "c")], false, vec![Tok::Text("x".into()), Tok::End("\u{1}".into())]),
        "2" => (b"<a b=c />", vec![("b", "c")], true, vec![]),
        "3" => (b"<br>x", vec![], false, vec![Tok::Text("x".into())]),
        _ => return None,
    })
}

pub fn run(line: &str) -> String {
    let f: Vec<&str> = line.split(' ').collect();
    let mut fl = Flags(vec![]);
    match f.as_slice() {
        ["body", h] => {
            let Some(b) = of_hex(h) else { return "bad-case".into() };
            let Ok(s) = String::from_utf8(b) else { return "bad-utf8".into() };
            let esc = lol_html::verif_hooks::escape_body_text(&s);
            let obs = format!("body {}", hex_or_dash(esc.as_bytes()));
            // the public path: ContentType::Text insertion
            let doc = b"<p>x</p>";
            let s2 = s.clone();
            let out = rewrite(
                doc,
                UTF_8,
                Settings::new().append_element_content_handler(element!("p", move |el| {
                    el.before(&s2, ContentType::Text);
                    Ok(())
                })),
            );
            match out {
                Ok(out) => {
                    let mut want_bytes = esc.as_bytes().to_vec();
                    want_bytes.extend_from_slice(doc);
                    if out != want_bytes {
                        fl.add("body-api", format!("before(Text) wrote {} but the hook gives {}", to_hex(&out), to_hex(&want_bytes)));
                    }
                    let tail = [start("p", &[], false), Tok::Text("x".into()), Tok::End("p".into())];
                    let mut want_lol = vec![];
                    push_text(&mut want_lol, &esc);
                    want_lol.extend_from_slice(&tail);
                    fl.check("body-lol", &lol_tokens(&out, UTF_8), &want_lol);
                    let mut want_h5 = vec![];
                    push_text(&mut want_h5, &norm(&s, false));
                    want_h5.extend_from_slice(&tail);
                    fl.check("body-h5e", &Ok(h5e_tokens(&out, UTF_8)), &want_h5);
                }
                Err(e) => fl.add("body-api", format!("rewrite failed: {e}")),
            }
            fl.fin(obs)
        }
        ["attrv", h] => {
            let Some(v) = of_hex(h) else { return "bad-case".into() };
            let esc = lol_html::verif_hooks::escape_double_quotes_only(&v);
            let obs = format!("attrv {}", hex_or_dash(&esc));
            if esc.contains(&b'"') {
                fl.add("attrv-quote", "escaped value contains a double quote".into());
            }
            if let Ok(s) = String::from_utf8(v.clone()) {
                let s2 = s.clone();
                let out = rewrite(
                    b"<a b=c>",
                    UTF_8,
                    Settings::new().append_element_content_handler(element!("a", move |el| {
                        el.set_attribute("t", &s2).unwrap();
                        Ok(())
                    })),
                );
                match out {
                    Ok(out) => {
                        let mut want_bytes = b"<a b=c t=\"".to_vec();
                        want_bytes.extend_from_slice(&esc);
                        want_bytes.extend_from_slice(b"\">");
                        if out != want_bytes {
                            fl.add("attrv-api", format!("set_attribute wrote {} but the hook gives {}", to_hex(&out), to_hex(&want_bytes)));
                        }
                        let escs = String::from_utf8(esc.clone()).unwrap();
                        fl.check("attrv-lol", &lol_tokens(&out, UTF_8), &[start("a", &[("b", "c"), ("t", &readback(UTF_8, &escs))], false)]);
                        let mut got = h5e_tokens(&out, UTF_8);
                        if s.contains('&') {
                            // character references are decoded by html5ever (documented: `&` is not escaped);
                            // compare structure only
                            if let Some(Tok::Start { attrs, .. }) = got.first_mut() {
                                if attrs.len() == 2 && attrs[1].0 == "t" {
                                    attrs[1].1 = String::new();
                                }
                            }
                            fl.check("attrv-h5e", &Ok(got), &[start("a", &[("b", "c"), ("t", "")], false)]);
                        } else {
                            fl.check("attrv-h5e", &Ok(got), &[start("a", &[("b", "c"), ("t", &norm(&s, true))], false)]);
                        }
                    }
                    Err(e) => fl.add("attrv-api", format!("rewrite failed: {e}")),
                }
            }
            fl.fin(obs)
        }
        ["comment", h, e] => {
            let (Some(b), Some(enc)) = (of_hex(h), enc_of(e)) else { return "bad-case".into() };
            let Ok(s) = String::from_utf8(b) else { return "bad-utf8".into() };
            let doc = b"<!--x-->";
            let res: Rc<RefCell<Option<Result<(), CommentTextError>>>> = Rc::new(RefCell::new(None));
            let (r2, s2) = (res.clone(), s.clone());
            let out = rewrite(
                doc,
                enc,
                Settings::new().append_document_content_handler(doc_comments!(move |c| {
                    *r2.borrow_mut() = Some(c.set_text(&s2));
                    Ok(())
                })),
            );
            let out = match out {
                Ok(o) => o,
                Err(e) => return format!("comment rewrite-error {e}"),
            };
            let r = res.borrow_mut().take();
            let rs = match r {
                Some(Ok(())) => "ok",
                Some(Err(CommentTextError::CommentClosingSequence)) => "err:closing",
                Some(Err(CommentTextError::UnencodableCharacter)) => "err:unencodable",
                None => "not-called",
            };
            let obs = format!("comment {rs} {}", hex_or_dash(&out));
            if rs == "ok" {
                fl.check("comment-lol", &lol_tokens(&out, enc), &[Tok::Comment(readback(enc, &s))]);
                fl.check("comment-h5e", &Ok(h5e_tokens(&out, enc)), &[Tok::Comment(norm(&s, true))]);
            } else if out != doc {
                fl.add("comment-unchanged", format!("rejected set_text changed the output to {}", to_hex(&out)));
            }
            fl.fin(obs)
        }
        ["attrname", h, hv, e, d] => {
            let (Some(b), Some(bv), Some(enc), Some((doc, attrs, sc))) = (of_hex(h), of_hex(hv), enc_of(e), attr_docs(d)) else {
                return "bad-case".into();
            };
            let (Ok(n), Ok(v)) = (String::from_utf8(b), String::from_utf8(bv)) else { return "bad-utf8".into() };
            let res: Rc<RefCell<Option<Result<(), AttributeNameError>>>> = Rc::new(RefCell::new(None));
            let (r2, n2, v2) = (res.clone(), n.clone(), v.clone());
            let out = rewrite(
                doc,
                enc,
                Settings::new().append_element_content_handler(element!("a", move |el| {
                    *r2.borrow_mut() = Some(el.set_attribute(&n2, &v2));
                    Ok(())
                })),
            );
            let out = match out {
                Ok(o) => o,
                Err(e) => return format!("attrname rewrite-error {e}"),
            };
            let r = res.borrow_mut().take();
            let rs = match r {
                Some(Ok(())) => "ok".to_string(),
                Some(Err(AttributeNameError::Empty)) => "err:empty".into(),
                Some(Err(AttributeNameError::ForbiddenCharacter(c))) => format!("err:forbidden:{:02x}", c as u32),
                Some(Err(AttributeNameError::UnencodableCharacter)) => "err:unencodable".into(),
                None => "not-called".into(),
            };
            let obs = format!("attrname {rs} {}", hex_or_dash(&out));
            if rs == "ok" {
                // expected attribute list: replace the value of the attribute of that name, or append
                let ln = lower(&n);
                let escv = {
                    let (vb, _, _) = enc.encode(&v);
                    let eb = lol_html::verif_hooks::escape_double_quotes_only(&vb);
                    enc.decode_without_bom_handling(&eb).0.into_owned()
                };
                let mut want: Vec<(String, String)> = attrs.iter().map(|(a, b)| (a.to_string(), b.to_string())).collect();
                let mut want_h5 = want.clone();
                let pos = want.iter().position(|(a, _)| *a == ln);
                let h5val = norm(&enc.decode_without_bom_handling(&enc.encode(&v).0).0, true);
                match pos {
                    Some(i) => {
                        want[i].1 = escv.clone();
                        want_h5[i].1 = h5val.clone();
                    }
                    None => {
                        want.push((readback(enc, &ln), escv.clone()));
                        want_h5.push((norm(&ln, true), h5val.clone()));
                    }
                }
                fl.check("attrname-lol", &lol_tokens(&out, enc), &[Tok::Start { name: "a".into(), attrs: want, sc }]);
                let mut got = h5e_tokens(&out, enc);
                let amp = escv.contains('&');
                if amp {
                    let i = pos.unwrap_or(want_h5.len() - 1);
                    want_h5[i].1 = String::new();
                    if let Some(Tok::Start { attrs, .. }) = got.first_mut() {
                        if let Some(a) = attrs.get_mut(i) {
                            a.1 = String::new();
                        }
                    }
                }
                fl.check("attrname-h5e", &Ok(got), &[Tok::Start { name: "a".into(), attrs: want_h5, sc }]);
            } else if out != doc {
                fl.add("attrname-unchanged", format!("rejected set_attribute changed the output to {}", to_hex(&out)));
            }
            fl.fin(obs)
        }
        ["attrseq", e, h, hl, hs, hv1, hv2] => {
            let (Some(enc), Some(b), Some(bl), Some(bs), Some(b1), Some(b2)) =
                (enc_of(e), of_hex(h), of_hex(hl), if *hs == "-" { Some(vec![]) } else { of_hex(hs) }, of_hex(hv1), of_hex(hv2))
            else {
                return "bad-case".into();
            };
            let (Ok(n), Ok(v1), Ok(v2)) = (String::from_utf8(b), String::from_utf8(b1), String::from_utf8(b2)) else {
                return "bad-utf8".into();
            };
            // the generator supplies the encoding of the lower-cased name (the model has no table for
            // these encodings); it must be what encoding_rs produces
            let ln = lower(&n);
            let (encd, _, had_err) = enc.encode(&ln);
            if had_err || encd.as_ref() != bl.as_slice() {
                return "bad-case-encoding".into();
            }
            let has_src = *hs != "-";
            let mut doc = b"<a".to_vec();
            if has_src {
                doc.push(b' ');
                doc.extend_from_slice(&bs);
                doc.extend_from_slice(b"=0");
            }
            doc.push(b'>');
            let has_upper = bl.iter().any(|c| c.is_ascii_uppercase());
            type R = Option<Result<(), AttributeNameError>>;
            let res: Rc<RefCell<(R, R)>> = Rc::new(RefCell::new((None, None)));
            let (r2, n2, v1c, v2c, docc) = (res.clone(), n.clone(), v1.clone(), v2.clone(), doc.clone());
            let caught = std::panic::catch_unwind(std::panic::AssertUnwindSafe(move || {
                rewrite(
                    &docc,
                    enc,
                    Settings::new().append_element_content_handler(element!("a", move |el| {
                        r2.borrow_mut().0 = Some(el.set_attribute(&n2, &v1c));
                        r2.borrow_mut().1 = Some(el.set_attribute(&n2, &v2c));
                        Ok(())
                    })),
                )
            }));
            const TAG: &str = "F22-multibyte-name-ascii-case";
            let out = match caught {
                Err(p) => {
                    let msg = p
                        .downcast_ref::<String>()
                        .cloned()
                        .or_else(|| p.downcast_ref::<&str>().map(|s| s.to_string()))
                        .unwrap_or_default();
                    let mut line = "attrseq f22 PANIC".to_string();
                    fl.add(
                        if has_upper { TAG } else { "attrseq-panic" },
                        format!("debug build panics in set_attribute({n:?}) [{} name bytes {}]: {}", enc.name(), to_hex(&bl), msg.replace('\n', " ")),
                    );
                    line = fl.fin(line);
                    return line;
                }
                Ok(Err(e)) => return format!("attrseq rewrite-error {e}"),
                Ok(Ok(o)) => o,
            };
            let show = |r: &R| match r {
                Some(Ok(())) => "ok".to_string(),
                Some(Err(AttributeNameError::Empty)) => "err:empty".into(),
                Some(Err(AttributeNameError::ForbiddenCharacter(c))) => format!("err:forbidden:{:02x}", *c as u32),
                Some(Err(AttributeNameError::UnencodableCharacter)) => "err:unencodable".into(),
                None => "not-called".into(),
            };
            let (ra, rb) = {
                let r = res.borrow();
                (show(&r.0), show(&r.1))
            };
            // shape of F22: the validated (lower-cased, encoded) name has a byte in A..Z and
            // eq_case_insensitive is called (always the case at the second call once the first succeeded)
            let shape = has_upper && ra == "ok";
            let obs = format!("attrseq {}{ra} {rb} {}", if shape { "f22 " } else { "" }, hex_or_dash(&out));
            // expected attribute list, computed on characters
            let mut want: Vec<(String, String)> = vec![];
            if has_src {
                want.push((lower(&enc.decode_without_bom_handling(&bs).0), "0".into()));
            }
            for (r, v) in [(&ra, &v1), (&rb, &v2)] {
                if r == "ok" {
                    match want.iter().position(|(a, _)| *a == ln) {
                        Some(i) => want[i].1 = norm(v, true),
                        None => want.push((norm(&ln, true), norm(v, true))),
                    }
                }
            }
            if ra == "ok" || rb == "ok" {
                let got = h5e_tokens(&out, enc);
                let wanted = [Tok::Start { name: "a".into(), attrs: want, sc: false }];
                if got.as_slice() != wanted {
                    let multibyte = !std::ptr::eq(enc, UTF_8) && !std::ptr::eq(enc, X_USER_DEFINED);
                    fl.add(
                        if multibyte { TAG } else { "attrseq-h5e" },
                        format!("after set_attribute({n:?},{v1:?}); set_attribute({n:?},{v2:?}) in {}: got {got:?} want {wanted:?}", enc.name()),
                    );
                }
            } else if out != doc {
                fl.add("attrname-unchanged", format!("rejected set_attribute changed the output to {}", to_hex(&out)));
            }
            fl.fin(obs)
        }
        ["tagname", h, e, d] => {
            let (Some(b), Some(enc), Some((doc, attrs, sc, tail))) = (of_hex(h), enc_of(e), tag_docs(d)) else {
                return "bad-case".into();
            };
            let Ok(n) = String::from_utf8(b) else { return "bad-utf8".into() };
            let res: Rc<RefCell<Option<Result<(), TagNameError>>>> = Rc::new(RefCell::new(None));
            let (r2, n2) = (res.clone(), n.clone());
            let out = rewrite(
                doc,
                enc,
                Settings::new().append_element_content_handler(element!("*", move |el| {
                    *r2.borrow_mut() = Some(el.set_tag_name(&n2));
                    Ok(())
                })),
            );
            let out = match out {
                Ok(o) => o,
                Err(e) => return format!("tagname rewrite-error {e}"),
            };
            let r = res.borrow_mut().take();
            let rs = match r {
                Some(Ok(())) => "ok".to_string(),
                Some(Err(TagNameError::Empty)) => "err:empty".into(),
                Some(Err(TagNameError::InvalidFirstCharacter)) => "err:first".into(),
                Some(Err(TagNameError::ForbiddenCharacter(c))) => format!("err:forbidden:{:02x}", c as u32),
                Some(Err(TagNameError::UnencodableCharacter)) => "err:unencodable".into(),
                None => "not-called".into(),
            };
            let obs = format!("tagname {rs} {}", hex_or_dash(&out));
            if rs == "ok" {
                let mk = |name: String| {
                    let mut v = vec![Tok::Start {
                        name: name.clone(),
                        attrs: attrs.iter().map(|(a, b)| (a.to_string(), b.to_string())).collect(),
                        sc,
                    }];
                    for t in &tail {
                        v.push(match t {
                            Tok::End(_) => Tok::End(name.clone()),
                            t => t.clone(),
                        });
                    }
                    v
                };
                let ln = lower(&n);
                if !TEXT_MODE_TAGS.contains(&ln.as_str()) {
                    fl.check("tagname-lol", &lol_tokens(&out, enc), &mk(readback(enc, &ln)));
                }
                fl.check("tagname-h5e", &Ok(h5e_tokens(&out, enc)), &mk(norm(&ln, true)));
            } else if out != doc {
                fl.add("tagname-unchanged", format!("rejected set_tag_name changed the output to {}", to_hex(&out)));
            }
            fl.fin(obs)
        }
        _ => "bad-case".into(),
    }
}
