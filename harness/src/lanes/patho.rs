//! Lane `patho` (implementation only, C15): pathological inputs. Every public call must terminate and
//! return normally (Ok or an error value), and the work must stay proportional to the input size.
//! case: <kind> <n> <seed>    obs: `kind n h<handlers> <res n> <res 4n>`.
//! Oracle (deterministic): the bytes handed to `Parser::parse` (work counter hook) are at most
//! 2*len + 4 KiB when the input comes in one write, and when it comes in 4 KiB writes (tag
//! `token-relex-across-writes` when only the chunked run exceeds it). A hard CPU bound per run
//! (tag `hang`) stands in for "terminates"; panics are caught by the harness main loop.
use lol_html::{HtmlRewriter, MemorySettings, Selector, Settings, doc_comments, doc_text, element, text};

/// CPU time of this thread (robust against load from the other shards)
fn cpu_now() -> f64 {
    let mut ts = libc::timespec { tv_sec: 0, tv_nsec: 0 };
    unsafe { libc::clock_gettime(libc::CLOCK_THREAD_CPUTIME_ID, &mut ts) };
    ts.tv_sec as f64 + ts.tv_nsec as f64 * 1e-9
}

fn build(kind: &str, n: usize, seed: u64) -> Vec<u8> {
    let rep = |s: &str, k: usize| s.repeat(k).into_bytes();
    match kind {
        "nest" => rep("<div>", n),
        "nestclose" => {
            let mut v = rep("<b><i>", n / 2);
            v.extend(rep("</i></b>", n / 2));
            v
        }
        "text" => rep("x", n),
        "name" => [b"<".to_vec(), rep("a", n), b">".to_vec()].concat(),
        "attrs" => [b"<a".to_vec(), rep(" x=y", n), b">".to_vec()].concat(),
        "attrval" => [b"<a x=\"".to_vec(), rep("v", n), b"\">".to_vec()].concat(),
        "comment" => [b"<!--".to_vec(), rep("-x", n / 2), b"-->".to_vec()].concat(),
        "unclosedcomment" => [b"<!--".to_vec(), rep("-", n)].concat(),
        "lt" => rep("<", n),
        "ltslash" => rep("</", n / 2),
        "endtags" => rep("</x>", n / 4),
        "svg" => rep("<svg><desc>", n / 11),
        "script" => [b"<script>".to_vec(), rep("<!--<script>", n / 12)].concat(),
        "select" => [b"<select>".to_vec(), rep("<option>", n / 8)].concat(),
        "cdata" => [b"<svg>".to_vec(), rep("<![CDATA[]", n / 10)].concat(),
        "doctype" => [b"<!DOCTYPE ".to_vec(), rep("x ", n / 2)].concat(),
        _ => {
            // pseudo-random bytes biased to markup
            let mut s = seed | 1;
            let alphabet = b"<>/!-=\"' aA[]x\n&;";
            (0..n)
                .map(|_| {
                    s ^= s << 13;
                    s ^= s >> 7;
                    s ^= s << 17;
                    alphabet[(s % alphabet.len() as u64) as usize]
                })
                .collect()
        }
    }
}

/// returns (result, cpu seconds, bytes handed to the parser, handler-vector items visited)
fn run_once(input: &[u8], handlers: u8, nsel: usize, chunk: usize) -> (String, f64, u64, u64) {
    let t0 = cpu_now();
    let w0 = lol_html::verif_hooks::parsed_bytes();
    let s0 = lol_html::verif_hooks::handler_steps();
    let mut out = 0usize;
    let mut settings = Settings::new().with_memory_settings(MemorySettings::new().with_max_allowed_memory_usage(64 << 20));
    if handlers >= 1 {
        settings = settings
            .append_document_content_handler(doc_text!(|_t| Ok(())))
            .append_document_content_handler(doc_comments!(|_c| Ok(())));
    }
    if handlers >= 2 {
        settings = settings.append_element_content_handler(element!("*", |e| {
            let _ = e.tag_name();
            let _ = e.attributes().len();
            Ok(())
        }));
        settings = settings.append_element_content_handler(text!("div b", |_t| Ok(())));
    }
    if handlers >= 3 {
        // every open element asks for end-tag work (run-time handler vector as deep as the nesting; seeded S-C15-3)
        settings = settings.append_element_content_handler(element!("*", |e| {
            if e.can_have_content() {
                e.after("", lol_html::html_content::ContentType::Html);
                e.append("", lol_html::html_content::ContentType::Html);
                let _ = e.on_end_tag(lol_html::end_tag!(|_t| Ok(())));
            }
            Ok(())
        }));
    }
    for i in 0..nsel {
        let sel = format!("div.c{i} > b:nth-child({}) a[x^=\"v{i}\"]", i % 7 + 1);
        settings = settings.append_element_content_handler(element!(sel, |_e| Ok(())));
    }
    let mut rw = HtmlRewriter::new(settings, |c: &[u8]| out += c.len());
    let mut res = "ok".to_string();
    for ch in input.chunks(chunk) {
        if let Err(e) = rw.write(ch) {
            res = format!("err:{}", e.to_string().chars().take(24).collect::<String>().replace(' ', "_"));
            return (res, cpu_now() - t0, lol_html::verif_hooks::parsed_bytes() - w0, lol_html::verif_hooks::handler_steps() - s0);
        }
    }
    if let Err(e) = rw.end() {
        res = format!("err:{}", e.to_string().chars().take(24).collect::<String>().replace(' ', "_"));
    }
    (res, cpu_now() - t0, lol_html::verif_hooks::parsed_bytes() - w0, lol_html::verif_hooks::handler_steps() - s0)
}

pub fn run(line: &str) -> String {
    let f: Vec<&str> = line.split(' ').collect();
    if f.len() != 3 {
        return "bad-case".into();
    }
    let (kind, Ok(n), Ok(seed)) = (f[0], f[1].parse::<usize>(), f[2].parse::<u64>()) else {
        return "bad-case".into();
    };
    if kind == "nssel" {
        // namespace syntax the parser accepts: `[|a]` is the attribute without a namespace (= `[a]`), `|div` is an
        // element without a namespace (never an HTML / SVG / MathML element: matches nothing)
        let doc = "<div id=a class=x><p ID=b><svg id=c><g class=x></g></svg><span></span></p></div>";
        let count = |sel: &str| -> Result<usize, String> {
            let n = std::cell::Cell::new(0usize);
            let r = lol_html::rewrite_str(
                doc,
                lol_html::RewriteStrSettings::new().append_element_content_handler(element!(sel, |_e| {
                    n.set(n.get() + 1);
                    Ok(())
                })),
            );
            r.map(|_| n.get()).map_err(|e| e.to_string())
        };
        let mut out = String::new();
        let mut oracle = String::new();
        for (a, b) in [("[|id]", "[id]"), ("[|class=x]", "[class=x]"), ("div[|id]", "div[id]"), ("p > [|id]", "p > [id]")] {
            let (ra, rb) = (count(a), count(b));
            out.push_str(&format!(" {:?}", ra));
            if ra != rb {
                oracle.push_str(&format!(" ||ORACLE:C04:no-namespace-attribute `{a}` gives {ra:?}, `{b}` gives {rb:?}"));
            }
        }
        for a in ["|div", "|g", "|*", "p |span"] {
            let ra = count(a);
            out.push_str(&format!(" {:?}", ra));
            if ra.as_ref().is_ok_and(|k| *k != 0) {
                oracle.push_str(&format!(" ||ORACLE:C04:no-namespace-type `{a}` matched {ra:?} elements"));
            }
        }
        return format!("nssel{out}{oracle}");
    }
    if kind == "deepsel" {
        // deeply nested / very long selector strings: a Selector or a SelectorError, never stack exhaustion
        let k = n.min(200_000);
        let shapes = [
            format!("{}a{}", ":not(".repeat(k), ")".repeat(k)),
            format!("a{}", ":not(b)".repeat(k)),
            format!("a{}", " > b".repeat(k)),
            format!("a{}", " b".repeat(k)),
            format!("a{}", ", b".repeat(k.min(20_000))),
            format!("a{}", "[x=y]".repeat(k)),
            format!("a{}", ".c".repeat(k)),
            format!("a:nth-child({}1)", "1".repeat(k.min(5000))),
            format!("{}a", "(".repeat(k)),
            format!("a[x=\"{}\"]", "v".repeat(k)),
        ];
        let mut res = String::new();
        let only: Option<usize> = std::env::var("PATHO_SHAPE").ok().and_then(|v| v.parse().ok());
        for (i, sh) in shapes.iter().enumerate() {
            if only.is_some_and(|o| o != i) {
                continue;
            }
            res.push(if sh.parse::<Selector>().is_ok() { 'o' } else { 'e' });
        }
        return format!("deepsel {n} {res}");
    }
    if kind == "selfuzz" {
        // random selector strings and API strings: a Selector or a SelectorError, never a panic
        let bytes = build("rand", n.min(200), seed);
        let s = String::from_utf8_lossy(&bytes).replace(['<', '>'], ":");
        let mut variants = vec![s.clone(), format!("div{s}"), format!(":not({s})"), format!("a:nth-child({s})"), format!("[{s}]")];
        // syntax the compiler cannot express must come back as a SelectorError
        const UNSUPPORTED: [&str; 22] = [
            "a + b", "a ~ b", "a::before", "a:hover", "a:has(b)", "ns|a", "*|a", "[ns|x]", "a:nth-child(2 of b)", "x::part(y)",
            "::slotted(a)", ":is(a, b)", ":where(a)", ":host", ":root", ":empty", "a:first-line", "a || b", ":nth-col(2)",
            ":not(a + b)", "a:not(:hover)", "@x",
        ];
        let k = (seed as usize) % UNSUPPORTED.len();
        variants.push(UNSUPPORTED[k].to_string());
        variants.push(format!("div {}", UNSUPPORTED[(k + 7) % UNSUPPORTED.len()]));
        variants.push(format!("{}, p", UNSUPPORTED[(k + 3) % UNSUPPORTED.len()]));
        let total = variants.len();
        let mut okc = 0;
        for v in &variants {
            if v.parse::<Selector>().is_ok() {
                okc += 1;
            }
        }
        return format!("selfuzz {n} parsed={okc}/{total}");
    }
    let handlers = (seed % 4) as u8;
    let nsel = if kind == "manysel" { n.min(3000) / 10 } else { 0 };
    let shape = if kind == "manysel" { "nestclose" } else { kind };
    let small = build(shape, n, seed);
    let big = build(shape, 4 * n, seed);
    let mut oracle = String::new();
    let mut obs = format!("{kind} {n} h{handlers}");
    let bound = |len: usize| 2 * len as u64 + 4096;
    for input in [&small, &big] {
        let (r_one, t_one, w_one, s_one) = run_once(input, handlers, nsel, usize::MAX);
        let (r_ck, t_ck, w_ck, s_ck) = run_once(input, handlers, nsel, 4096);
        obs.push_str(&format!(" {r_one}/{r_ck}"));
        if std::env::var("PATHO_TIMES").is_ok() {
            eprintln!("{kind} len={} h{handlers} one: {t_one:.3}s work={w_one}  4KiB: {t_ck:.3}s work={w_ck}", input.len());
        }
        if w_one > bound(input.len()) {
            oracle.push_str(&format!(" ||ORACLE:C15:superlinear-parse {kind} len={}: one write hands {w_one} bytes to the parser", input.len()));
        } else if w_ck > bound(input.len()) && !oracle.contains("token-relex") {
            oracle.push_str(&format!(
                " ||ORACLE:C15:token-relex-across-writes {kind} len={} in 4 KiB writes hands {w_ck} bytes to the parser ({}x the input; one write: {w_one})",
                input.len(),
                w_ck / input.len().max(1) as u64
            ));
        }
        // run-time handler vectors (end-tag handlers of open elements): finding / removing the active tail must cost
        // no more than what is removed, so the total is bounded by the number of pushes (<= one per tag <= len / 3)
        if s_one.max(s_ck) > bound(input.len()) && !oracle.contains("handler-vector-scan") {
            oracle.push_str(&format!(
                " ||ORACLE:C15:handler-vector-scan {kind} len={} h{handlers}: {} handler-vector items visited while closing elements ({}x the input)",
                input.len(),
                s_one.max(s_ck),
                s_one.max(s_ck) / input.len().max(1) as u64
            ));
        }
        if t_one > 300.0 || t_ck > 300.0 {
            oracle.push_str(&format!(" ||ORACLE:C15:hang {kind} len={}: {t_one:.0}s / {t_ck:.0}s CPU", input.len()));
        }
    }
    format!("{obs}{oracle}")
}
