//! Lane `mem` (property C10): drives the REAL `Arena` and `LimitedVec<T>` (through
//! `lol_html::verif_hooks`) sharing one `SharedMemoryLimiter` with an operation list.
//! Case / observation format: see lean/LolHtml/Lane/Mem.lean.
//!
//! Independent oracle (not diffed, appended as ` ||ORACLE:C10:<site> …`):
//!   * prealloc-left-charged   : `Arena::new` returned with usage > max (finding F5, repaired in /repo 6823fd9:
//!                               must stay silent)
//!   * usage-exceeds-max       : a call returned Ok, no call failed before, and accounted usage > max
//!   * arena-content           : the arena bytes differ from a reference `Vec<u8>` replay
//!   * held-exceeds-max        : arena length or vec length × item size exceeds max after an Ok call
use lol_html::SharedMemoryLimiter;
use lol_html::verif_hooks::{VerifArena, VerifLimitedVec};
use std::panic::{AssertUnwindSafe, catch_unwind};

#[derive(Clone, Copy)]
enum Tok {
    Append(usize),
    Init(usize),
    Shift(usize),
    Push(usize),
    Drain(usize),
}

fn parse_tok(t: &str) -> Option<Tok> {
    let mut cs = t.chars();
    let c = cs.next()?;
    let rest = cs.as_str();
    if rest.is_empty() {
        return if c == 'p' { Some(Tok::Push(1)) } else { None };
    }
    if !rest.bytes().all(|b| b.is_ascii_digit()) {
        return None;
    }
    let n: usize = rest.parse().ok()?;
    Some(match c {
        'a' => Tok::Append(n),
        'i' => Tok::Init(n),
        's' => Tok::Shift(n),
        'p' => Tok::Push(n),
        'd' => Tok::Drain(n),
        _ => return None,
    })
}

fn content(i: usize, n: usize) -> Vec<u8> {
    (0..n).map(|j| ((37 * i + 11 * j + 1) % 256) as u8).collect()
}

trait VecDyn {
    fn push_default(&mut self) -> bool;
    fn len(&self) -> usize;
    /// Err = the real code panicked
    fn drain_from(&mut self, k: usize) -> Result<(), ()>;
}

impl<T: Default> VecDyn for VerifLimitedVec<T> {
    fn push_default(&mut self) -> bool {
        self.push(T::default()).is_ok()
    }
    fn len(&self) -> usize {
        VerifLimitedVec::len(self)
    }
    fn drain_from(&mut self, k: usize) -> Result<(), ()> {
        catch_unwind(AssertUnwindSafe(|| {
            VerifLimitedVec::drain_from(self, k);
        }))
        .map_err(|_| ())
    }
}

#[allow(dead_code)]
#[derive(Clone, Copy)]
struct B7([u8; 7]);
impl Default for B7 {
    fn default() -> Self {
        B7([0; 7])
    }
}
#[allow(dead_code)]
#[derive(Clone, Copy)]
struct B512([u8; 512]);
impl Default for B512 {
    fn default() -> Self {
        B512([0; 512])
    }
}

fn make_vec(sel: usize, limiter: SharedMemoryLimiter) -> Option<(usize, Box<dyn VecDyn>)> {
    Some(match sel {
        0 => (size_of::<u8>(), Box::new(VerifLimitedVec::<u8>::new(limiter))),
        1 => (size_of::<u64>(), Box::new(VerifLimitedVec::<u64>::new(limiter))),
        2 => (size_of::<B7>(), Box::new(VerifLimitedVec::<B7>::new(limiter))),
        3 => (size_of::<[u64; 3]>(), Box::new(VerifLimitedVec::<[u64; 3]>::new(limiter))),
        4 => (size_of::<B512>(), Box::new(VerifLimitedVec::<B512>::new(limiter))),
        _ => return None,
    })
}

fn byte_sum(b: &[u8]) -> usize {
    b.iter().map(|&x| x as usize).sum::<usize>() % 65521
}

pub fn run(line: &str) -> String {
    let f: Vec<&str> = line.split(' ').filter(|s| !s.is_empty()).collect();
    if f.len() != 4 {
        return "bad-case".into();
    }
    let (Ok(max), Ok(prealloc), Ok(sel)) =
        (f[0].parse::<usize>(), f[1].parse::<usize>(), f[2].parse::<usize>())
    else {
        return "bad-case".into();
    };
    let toks: Option<Vec<Tok>> =
        if f[3] == "-" { Some(vec![]) } else { f[3].split(',').map(parse_tok).collect() };
    let Some(toks) = toks else { return "bad-case".into() };

    let limiter = SharedMemoryLimiter::new(max);
    let Some((isz, mut vec)) = make_vec(sel, limiter.clone()) else {
        return "bad-case".into();
    };
    let mut oracle: Vec<String> = vec![];

    // Arena::new cannot fail: the preallocation is clamped to the limit (rolled back if unreservable)
    let mut arena = VerifArena::new(limiter.clone(), prealloc);
    let mut out = format!("isz={isz} init=ok:{}", limiter.verif_current_usage());
    if limiter.verif_current_usage() > max {
        oracle.push(format!(
            "prealloc-left-charged Arena::new returned with usage {} > max {max} (prealloc={prealloc})",
            limiter.verif_current_usage()
        ));
    }

    let mut reference: Vec<u8> = vec![]; // replay of the arena content
    let mut failed_before = false;
    let mut i = 0usize; // expanded op index
    let mut panicked = false;
    'ops: for t in toks {
        let reps = if let Tok::Push(c) = t { c } else { 1 };
        for _ in 0..reps {
            let ok = match t {
                Tok::Append(n) => {
                    let c = content(i, n);
                    let ok = arena.append(&c).is_ok();
                    if ok {
                        reference.extend_from_slice(&c);
                    }
                    ok
                }
                Tok::Init(n) => {
                    let c = content(i, n);
                    let ok = arena.init_with(&c).is_ok();
                    // `clear()` happens before the failing append
                    reference.clear();
                    if ok {
                        reference.extend_from_slice(&c);
                    }
                    ok
                }
                Tok::Shift(k) => {
                    if catch_unwind(AssertUnwindSafe(|| arena.shift(k))).is_err() {
                        out.push_str(" PANIC-shift");
                        panicked = true;
                        break 'ops;
                    }
                    reference.drain(..k);
                    true
                }
                Tok::Push(_) => vec.push_default(),
                Tok::Drain(k) => {
                    if vec.drain_from(k).is_err() {
                        out.push_str(" PANIC-drain");
                        panicked = true;
                        break 'ops;
                    }
                    true
                }
            };
            let usage = limiter.verif_current_usage();
            out.push_str(&format!(
                " {}:{}:{}:{}",
                if ok { "ok" } else { "err" },
                usage,
                arena.bytes().len(),
                vec.len()
            ));
            if ok && !failed_before && usage > max {
                oracle.push(format!("usage-exceeds-max op#{i} usage={usage} max={max}"));
            }
            if ok && (arena.bytes().len() > max || vec.len().saturating_mul(isz) > max) {
                oracle.push(format!(
                    "held-exceeds-max op#{i} arena_len={} vec_bytes={} max={max}",
                    arena.bytes().len(),
                    vec.len() * isz
                ));
            }
            if arena.bytes() != reference.as_slice() {
                oracle.push(format!("arena-content op#{i} differs from reference replay"));
            }
            if !ok {
                failed_before = true;
            }
            i += 1;
        }
    }
    let _ = panicked;
    let d = arena.bytes();
    out.push_str(&format!(
        " | {} {} {} {}",
        d.len(),
        crate::util::hex_or_dash(&d[..d.len().min(8)]),
        crate::util::hex_or_dash(&d[d.len() - d.len().min(8)..]),
        byte_sum(d)
    ));
    if let Some(o) = oracle.first() {
        out.push_str(&format!(" ||ORACLE:C10:{o}"));
    }
    out
}
