pub mod echo;
pub mod edit;

pub type LaneFn = fn(&str) -> String;

pub fn find(name: &str) -> Option<LaneFn> {
    Some(match name {
        "echo" => echo::run,
        "edit" => edit::run,
        _ => return None,
    })
}
