pub mod echo;
pub mod enc;

pub type LaneFn = fn(&str) -> String;

pub fn find(name: &str) -> Option<LaneFn> {
    Some(match name {
        "echo" => echo::run,
        "enc" => enc::run,
        _ => return None,
    })
}
