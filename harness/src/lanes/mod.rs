pub mod echo;
pub mod esc;

pub type LaneFn = fn(&str) -> String;

pub fn find(name: &str) -> Option<LaneFn> {
    Some(match name {
        "echo" => echo::run,
        "esc" => esc::run,
        _ => return None,
    })
}
