pub mod echo;
pub mod lex;

pub type LaneFn = fn(&str) -> String;

pub fn find(name: &str) -> Option<LaneFn> {
    Some(match name {
        "echo" => echo::run,
        "lex" => lex::run,
        _ => return None,
    })
}
