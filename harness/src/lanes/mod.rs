pub mod echo;
pub mod hash;

pub type LaneFn = fn(&str) -> String;

pub fn find(name: &str) -> Option<LaneFn> {
    Some(match name {
        "echo" => echo::run,
        "hash" => hash::run,
        _ => return None,
    })
}
