pub mod attrs;
pub mod capi;
pub mod echo;
pub mod edit;
pub mod enc;
pub mod esc;
pub mod full;
pub mod h5;
pub mod hash;
pub mod nsprobe;
pub mod pass;
pub mod patho;
pub mod proto;
pub mod lex;
pub mod mem;
pub mod memrw;
pub mod memts;
pub mod metacs;
pub mod scope;
pub mod sel;
pub mod selpure;
pub mod tb;
pub mod thr;

pub type LaneFn = fn(&str) -> String;

pub fn find(name: &str) -> Option<LaneFn> {
    Some(match name {
        "attrs" => attrs::run,
        "capi" => capi::run,
        "echo" => echo::run,
        "edit" => edit::run,
        "enc" => enc::run,
        "esc" => esc::run,
        "full" => full::run,
        "h5" => h5::run,
        "hash" => hash::run,
        "nsprobe" => nsprobe::run,
        "metacs" => metacs::run,
        "pass" => pass::run_lane,
        "patho" => patho::run,
        "proto" => proto::run,
        "lex" => lex::run,
        "fault" => lex::run_fault,
        "mem" => mem::run,
        "memrw" => memrw::run,
        "memts" => memts::run,
        "scope" => scope::run,
        "sel" => sel::run,
        "selpure" => selpure::run,
        "tb" => tb::run,
        "thr" => thr::run,
        _ => return None,
    })
}
