pub mod echo;
pub mod hash;
pub mod nsprobe;

pub type LaneFn = fn(&str) -> String;

pub fn find(name: &str) -> Option<LaneFn> {
    Some(match name {
        "echo" => echo::run,
        "hash" => hash::run,
        "nsprobe" => nsprobe::run,
        _ => return None,
    })
}
