pub mod echo;
pub mod sel;

pub type LaneFn = fn(&str) -> String;

pub fn find(name: &str) -> Option<LaneFn> {
    Some(match name {
        "echo" => echo::run,
        "sel" => sel::run,
        _ => return None,
    })
}
