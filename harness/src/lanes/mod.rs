pub mod echo;
pub mod selpure;

pub type LaneFn = fn(&str) -> String;

pub fn find(name: &str) -> Option<LaneFn> {
    Some(match name {
        "echo" => echo::run,
        "selpure" => selpure::run,
        _ => return None,
    })
}
