pub mod capi;
pub mod echo;
pub mod thr;

pub type LaneFn = fn(&str) -> String;

pub fn find(name: &str) -> Option<LaneFn> {
    Some(match name {
        "capi" => capi::run,
        "echo" => echo::run,
        "thr" => thr::run,
        _ => return None,
    })
}
