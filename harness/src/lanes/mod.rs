pub mod echo;
pub mod mem;
pub mod memrw;
pub mod memts;

pub type LaneFn = fn(&str) -> String;

pub fn find(name: &str) -> Option<LaneFn> {
    Some(match name {
        "echo" => echo::run,
        "mem" => mem::run,
        "memrw" => memrw::run,
        "memts" => memts::run,
        _ => return None,
    })
}
