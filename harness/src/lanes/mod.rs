pub mod echo;
pub mod scope;

pub type LaneFn = fn(&str) -> String;

pub fn find(name: &str) -> Option<LaneFn> {
    Some(match name {
        "echo" => echo::run,
        "scope" => scope::run,
        _ => return None,
    })
}
