pub mod capi;
pub mod echo;

pub type LaneFn = fn(&str) -> String;

pub fn find(name: &str) -> Option<LaneFn> {
    Some(match name {
        "capi" => capi::run,
        "echo" => echo::run,
        _ => return None,
    })
}
