//! Lane `hash`: case = name bytes in hex; observation = `<u64 hash> <is_empty 0|1> <Debug string>`.
//! The raw `u64` is private; it is read through the derived `Hash` impl (which feeds exactly the
//! field to the hasher) with a recording `Hasher`.
use crate::util::*;
use lol_html::LocalNameHash;
use std::hash::{Hash, Hasher};

#[derive(Default)]
struct Rec(Vec<u64>);
impl Hasher for Rec {
    fn finish(&self) -> u64 {
        0
    }
    fn write(&mut self, bytes: &[u8]) {
        let mut b = [0u8; 8];
        let n = bytes.len().min(8);
        b[..n].copy_from_slice(&bytes[..n]);
        self.0.push(u64::from_ne_bytes(b));
    }
    fn write_u64(&mut self, i: u64) {
        self.0.push(i);
    }
}

fn raw(h: &LocalNameHash) -> u64 {
    let mut r = Rec::default();
    h.hash(&mut r);
    assert_eq!(r.0.len(), 1, "derived Hash fed an unexpected number of words");
    r.0[0]
}

/// Independent reference: base-32 value in u128, invalidated exactly when the documented scheme
/// cannot represent the name (bad byte, or no room left in 64 bits).
fn reference(name: &[u8]) -> u64 {
    let mut h: u128 = 0;
    let mut dead = false;
    for &c in name {
        if dead || (h >> 59) != 0 {
            dead = true;
            continue;
        }
        let d = match c {
            b'a'..=b'z' => (c - b'a') as u128 + 6,
            b'A'..=b'Z' => (c - b'A') as u128 + 6,
            b'1'..=b'6' => (c - b'1') as u128,
            _ => {
                dead = true;
                continue;
            }
        };
        h = h * 32 + d;
    }
    if dead { u64::MAX } else { h as u64 }
}

pub fn run(line: &str) -> String {
    let Some(name) = of_hex(line) else { return "bad-case".into() };
    let mut h = LocalNameHash::new();
    for &c in &name {
        h.update(c);
    }
    let v = raw(&h);
    let mut out = format!("{} {} {:?}", v, u8::from(h.is_empty()), h);
    if let Ok(s) = std::str::from_utf8(&name) {
        let h2 = LocalNameHash::from(s);
        if raw(&h2) != v {
            out.push_str(" ||ORACLE:C03:hash-from-str from(&str) differs from update loop");
        }
    }
    if reference(&name) != v {
        out.push_str(&format!(" ||ORACLE:C03:hash-reference expected {}", reference(&name)));
    }
    out
}
