use crate::util::*;
pub fn run(line: &str) -> String {
    match of_hex(line) {
        Some(b) => format!("{} {}", b.len(), hex_or_dash(&b)),
        None => "bad-case".into(),
    }
}
