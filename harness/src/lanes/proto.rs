//! Lane `proto` (implementation only): sink protocol (C12) and graceful bail-out (C11) through the
//! PUBLIC HtmlRewriter, with failures injected at every handler invocation index or by memory limit.
//! case: <enc idx> <doc utf8 hex> <cuts per-mille|-> <end-append utf8 hex|-> <bailout-append utf8 hex|-> <failAt (0=never)>
//!       <graceful: 2 bits mem,handler> <maxmem (0 = unlimited)> <prealloc> <mutate 0..6>
use crate::util::*;
use lol_html::errors::RewritingError;
use lol_html::html_content::ContentType;
use lol_html::test_utils::ASCII_COMPATIBLE_ENCODINGS;
use lol_html::{
    AsciiCompatibleEncoding, HtmlRewriter, MemorySettings, OutputSink, Settings, doc_comments, doc_text, element, end,
};
use std::cell::RefCell;
use std::rc::Rc;

#[derive(Debug, Clone, PartialEq)]
enum Ev {
    Enc(String),
    Chunk(Vec<u8>),
}

struct Sink(Rc<RefCell<Vec<Ev>>>);
impl OutputSink for Sink {
    fn handle_chunk(&mut self, chunk: &[u8]) {
        self.0.borrow_mut().push(Ev::Chunk(chunk.to_vec()));
    }
    fn set_encoding(&mut self, e: AsciiCompatibleEncoding) {
        let e: &'static encoding_rs::Encoding = e.into();
        self.0.borrow_mut().push(Ev::Enc(e.name().to_string()));
    }
}

fn find_sub(h: &[u8], n: &[u8]) -> Vec<usize> {
    if n.is_empty() {
        return vec![];
    }
    (0..=h.len().saturating_sub(n.len())).filter(|&i| h[i..].starts_with(n)).collect()
}

pub fn run(line: &str) -> String {
    let f: Vec<&str> = line.split(' ').collect();
    if f.len() != 10 {
        return "bad-case".into();
    }
    let (Ok(ei), Some(doc), Some(cuts_pm), Some(end_s), Some(bail_s), Ok(fail_at), Ok(graceful), Ok(maxmem), Ok(prealloc), Ok(mutate)) = (
        f[0].parse::<usize>(),
        of_hex(f[1]),
        nat_list(f[2]),
        of_hex(f[3]),
        of_hex(f[4]),
        f[5].parse::<usize>(),
        f[6].parse::<u8>(),
        f[7].parse::<usize>(),
        f[8].parse::<usize>(),
        f[9].parse::<u8>(),
    ) else {
        return "bad-case".into();
    };
    let enc = ASCII_COMPATIBLE_ENCODINGS[ei % ASCII_COMPATIBLE_ENCODINGS.len()];
    let (Ok(doc), Ok(end_s), Ok(bail_s)) = (String::from_utf8(doc), String::from_utf8(end_s), String::from_utf8(bail_s)) else {
        return "SKIP not-utf8".into();
    };
    let (bytes, _, unmappable) = enc.encode(&doc);
    let (back, had_err) = enc.decode_without_bom_handling(&bytes);
    if unmappable || had_err || back != doc {
        return "SKIP no-round-trip".into();
    }
    let input = bytes.into_owned();
    let mut cuts: Vec<usize> = cuts_pm.iter().map(|p| p * input.len() / 1000).collect();
    cuts.sort_unstable();

    let log = Rc::new(RefCell::new(Vec::<Ev>::new()));
    let counter = Rc::new(RefCell::new(0usize));
    let tick = {
        let counter = counter.clone();
        move || -> Result<(), Box<dyn std::error::Error + Send + Sync>> {
            let mut c = counter.borrow_mut();
            *c += 1;
            if fail_at != 0 && *c == fail_at { Err("injected".into()) } else { Ok(()) }
        }
    };
    let (t1, t2, t3, t4) = (tick.clone(), tick.clone(), tick.clone(), tick.clone());
    // documented exception of C11: a text handler failing on a later chunk of an already partly emitted text node
    let node_open = Rc::new(RefCell::new(false));
    let partial_text_failure = Rc::new(RefCell::new(false));
    let failed_in_text = Rc::new(RefCell::new(false));
    let (no, ptf, fit) = (node_open.clone(), partial_text_failure.clone(), failed_in_text.clone());
    let bail_runs = Rc::new(RefCell::new(0usize));
    let br = bail_runs.clone();
    let bail_text = bail_s.clone();
    let end_text = end_s.clone();
    let mut mem = MemorySettings::new()
        .with_preallocated_parsing_buffer_size(prealloc)
        .with_graceful_bail_out_on_memory_limit_exceeded(graceful & 2 != 0);
    if maxmem != 0 {
        mem = mem.with_max_allowed_memory_usage(maxmem);
    }
    let settings = Settings::new()
        .with_encoding(AsciiCompatibleEncoding::new(enc).unwrap())
        .with_memory_settings(mem)
        .with_graceful_bail_out_on_content_handler_error(graceful & 1 != 0)
        .append_element_content_handler(element!("*", move |el| {
            t1()?;
            match mutate {
                2 => {
                    let _ = el.set_attribute("a", "");
                }
                3 => el.after("", ContentType::Html),
                5 => el.before("é<i>", ContentType::Text),
                6 => el.set_inner_content("", ContentType::Html),
                _ => {}
            }
            Ok(())
        }))
        .append_document_content_handler(doc_comments!(move |c| {
            t2()?;
            if mutate == 1 {
                let _ = c.set_text("");
            }
            Ok(())
        }))
        .append_document_content_handler(doc_text!(move |t| {
            let was_open = *no.borrow();
            *no.borrow_mut() = !t.last_in_text_node();
            if let Err(e) = t3() {
                if was_open {
                    *ptf.borrow_mut() = true;
                }
                *fit.borrow_mut() = true;
                return Err(e);
            }
            if mutate == 4 {
                t.replace("", ContentType::Html);
            }
            Ok(())
        }))
        .append_document_content_handler(end!(move |e| {
            t4()?;
            if !end_text.is_empty() {
                e.append(&end_text, ContentType::Html);
                e.append(&end_text, ContentType::Text);
            }
            Ok(())
        }))
        .append_bail_out_handler(move |_err: &RewritingError, b: &mut lol_html::html_content::BailOut<'_>| {
            *br.borrow_mut() += 1;
            if !bail_text.is_empty() {
                b.append(&bail_text, ContentType::Html);
            }
        });
    let mut rw = HtmlRewriter::new(settings, Sink(log.clone()));
    let mut written = 0usize;
    let mut err: Option<RewritingError> = None;
    let mut use_after_error_ok = true;
    for ch in split_at_cuts(&input, &cuts) {
        written += ch.len();
        if let Err(e) = rw.write(ch) {
            err = Some(e);
            break;
        }
    }
    let mut end_ok = false;
    if err.is_none() {
        match rw.end() {
            Ok(()) => end_ok = true,
            Err(e) => err = Some(e),
        }
    } else {
        // documented: further use panics and emits nothing
        let before = log.borrow().len();
        let r = std::panic::catch_unwind(std::panic::AssertUnwindSafe(|| {
            let _ = rw.write(b"<x>");
        }));
        if r.is_ok() || log.borrow().len() != before {
            use_after_error_ok = false;
        }
    }
    let log = log.borrow().clone();
    let mut oracle = String::new();
    // ---- C12: sink protocol
    match log.first() {
        Some(Ev::Enc(_)) => {}
        other => oracle.push_str(&format!(" ||ORACLE:C12:encoding-not-first first sink call is {:?}", other.map(|e| format!("{e:?}").chars().take(40).collect::<String>()))),
    }
    let empties: Vec<usize> = log.iter().enumerate().filter(|(_, e)| matches!(e, Ev::Chunk(c) if c.is_empty())).map(|(i, _)| i).collect();
    if end_ok {
        if empties != vec![log.len() - 1] {
            oracle.push_str(&format!(" ||ORACLE:C12:zero-length-chunk-misplaced successful end: zero-length chunks at sink-call indices {:?} of {} calls ({})", empties, log.len(), enc.name()));
        }
    } else if !empties.is_empty() {
        oracle.push_str(&format!(" ||ORACLE:C12:zero-length-chunk-on-failure run failed but zero-length chunks at sink-call indices {:?} of {} calls ({})", empties, log.len(), enc.name()));
    }
    if !use_after_error_ok {
        oracle.push_str(" ||ORACLE:C12:use-after-error a write after an error did not panic or emitted output");
    }
    // ---- C11: byte preservation (only when handlers do not mutate)
    let sink: Vec<u8> = log.iter().flat_map(|e| if let Ev::Chunk(c) = e { c.clone() } else { vec![] }).collect();
    let runs = *bail_runs.borrow();
    let kind = match &err {
        None => "ok",
        Some(RewritingError::MemoryLimitExceeded(_)) => "mem",
        Some(RewritingError::ContentHandlerError(_)) => "hnd",
        Some(RewritingError::ParsingAmbiguity(_)) => "amb",
        Some(_) => "other",
    };
    if mutate == 0 {
        let received = &input[..written];
        let end_fail = err.is_some() && written == input.len() && *counter.borrow() >= fail_at && fail_at != 0 && sink.starts_with(received);
        let recovers = (kind == "mem" && graceful & 2 != 0) || (kind == "hnd" && graceful & 1 != 0);
        if err.is_none() {
            let mut expect = input.clone();
            if !end_s.is_empty() {
                let mut o = Vec::new();
                let mut rwx = HtmlRewriter::new(
                    Settings::new().with_encoding(AsciiCompatibleEncoding::new(enc).unwrap()).append_document_content_handler(end!(|e| {
                        e.append(&end_s, ContentType::Html);
                        e.append(&end_s, ContentType::Text);
                        Ok(())
                    })),
                    |c: &[u8]| o.extend_from_slice(c),
                );
                rwx.end().unwrap();
                expect.extend_from_slice(&o);
            }
            if sink != expect {
                oracle.push_str(&format!(" ||ORACLE:C11:success-output-differs {} sink != input ++ end content", enc.name()));
            }
            if runs != 0 {
                oracle.push_str(" ||ORACLE:C11:bailout-handler-ran-on-success");
            }
        } else if end_fail || *partial_text_failure.borrow() {
            // end handler failed after everything was emitted: no bail-out by design;
            // or the documented exception (text handler failing inside a partly emitted text node)
        } else if recovers {
            let b = enc.encode(&bail_s).0.into_owned();
            let ok = if b.is_empty() {
                sink == received
            } else {
                find_sub(&sink, &b).iter().any(|&i| {
                    let mut s = sink[..i].to_vec();
                    s.extend_from_slice(&sink[i + b.len()..]);
                    s == received
                })
            };
            if !ok {
                // is it exactly the head of a multi-byte character, taken by the text decoder from an earlier
                // write, that is missing?  (text handler failed on its first call for this text node)
                let held_lost = *failed_in_text.borrow() && !enc.is_single_byte() && {
                    let mut s2 = sink.clone();
                    if !b.is_empty() {
                        if let Some(&i) = find_sub(&sink, &b).last() {
                            s2 = sink[..i].to_vec();
                            s2.extend_from_slice(&sink[i + b.len()..]);
                        }
                    }
                    s2.len() < received.len() && received.len() - s2.len() <= 3
                };
                let site = if held_lost { "text-failure-loses-decoder-held-bytes" } else { "bytes-lost-or-duplicated" };
                oracle.push_str(&format!(" ||ORACLE:C11:{site} {kind} {} failAt={fail_at} maxmem={maxmem} prealloc={prealloc} cuts={:?}: sink minus bail-out output != received input ({} vs {} bytes)", enc.name(), cuts, sink.len(), received.len()));
            }
            if runs != 1 {
                oracle.push_str(&format!(" ||ORACLE:C11:bailout-handler-runs {runs} (expected exactly 1)"));
            }
        } else {
            if !received.starts_with(&sink) {
                oracle.push_str(&format!(" ||ORACLE:C12:not-a-prefix {kind} without graceful bail-out the sink is not a prefix of the input ({})", enc.name()));
            }
            if runs != 0 {
                oracle.push_str(&format!(" ||ORACLE:C11:bailout-handler-ran-without-flag {kind}"));
            }
        }
    }
    format!("enc={} len={} res={kind} calls={} invocations={}{oracle}", enc.name(), input.len(), log.len(), counter.borrow())
}
