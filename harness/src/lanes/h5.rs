//! Differential lane `h5` (property C03, implementation only — no Lean side).
//!
//! case: `<mode> <input hex (UTF-8)> <cuts>`   mode ∈ all | el | text | comment | doctype
//!
//! (a) lol-html: the real `HtmlRewriter`, `strict = true`, the input written in the given chunks, with a
//!     `*` element handler (+ `on_end_tag`), and document-level text / comment / doctype handlers
//!     (`mode` ≠ all registers only that kind: the "capture set" of the property).
//! (b) html5ever 0.39: its tokenizer feeding a `TokenSink` wrapper that records every token and forwards
//!     it to the real `TreeBuilder<Handle, RcDom>` (scripting enabled), whose answer (switch to RCDATA /
//!     RAWTEXT / script data / PLAINTEXT, "adjusted current node not in the HTML namespace" for CDATA)
//!     drives the tokenizer — i.e. the token stream a WHATWG tokenizer produces under a real tree builder.
//!
//! Compared (C03): start tags (lower-cased name, attributes — first occurrence of each name, because
//! html5ever's tokenizer drops duplicates —, self-closing flag), comments, doctypes (name, public id,
//! system id) and text, in order, with adjacent text merged: what is text and what is markup, and where
//! each text run starts and ends relative to the other tokens. End tags reach lol-html handlers only
//! when they close the element on lol-html's own open-element stack, so the reported end tags are
//! checked to be a subsequence of html5ever's end-tag tokens and are left out of the main comparison
//! (an end tag mistaken for text, or text for an end tag, still shows up as a text difference).
//! Normalisation on the lol-html side: CR LF / CR → LF per contiguous text run, attribute value and
//! comment (html5ever's input-stream preprocessing); the generator avoids `&` and NUL.
//!
//! When the strict run fails with `ParsingAmbiguity`, an independent transcription of the property's
//! clause ("a text-mode-switching start tag inside select / template in select / in or after frameset")
//! is run over html5ever's tag tokens: lol-html must fail exactly at the first such tag and must have
//! reported exactly the tokens before it. When it succeeds the non-strict run must report the same stream.
//!
//! observation: `ok s=<start tags> e=<end tags> t=<text runs> c=<comments> d=<doctypes>` |
//!              `ambig <tag> s=…` | `err <kind>`
//! oracle tags (` ||ORACLE:C03:<tag> …`):
//!   F1-attr-value-gt-text-mode, F2-self-closing-foreign-root, F11-foreign-root-inside-foreign,
//!   F12-integration-point-named-end-tag            — known shapes (see docs/pkg-ref.md)
//!   token-stream-differs                            — any other difference of the main comparison
//!   R2-cdata-directly-in-integration-point          — finding R2 = F28 (see docs/pkg-ref.md)
//!   Ftb1-ignored-text-tag-in-template-column-group, Ftb2-frameset-after-select-popped-with-template,
//!   Ftb4-mglyph-malignmark-in-text-integration-point, Ftb5-frameset-in-integration-point,
//!   Ftb7-table-structure-tag-in-integration-point, Ftb8-end-tag-walks-to-foreign-ancestor
//!                                                   — findings of package tb (docs/pkg-tb.md §5), see `known_shapes`
//!   strict-fails-on-unfinished-tag                 — finding R1 (tag-scanner mode only, see docs/pkg-ref.md)
//!   end-tags-not-subsequence, strict-failed-unexpectedly, strict-not-failed, ambiguity-at-wrong-place,
//!   strict-differs-from-nonstrict, chunking-changes-tokens, unexpected-error
use crate::util::*;
use html5ever::tendril::StrTendril;
use html5ever::tokenizer::{
    BufferQueue, CharacterTokens, CommentToken, DoctypeToken, EndTag, NullCharacterToken, StartTag,
    TagToken, Token, TokenSink, TokenSinkResult, Tokenizer, TokenizerOpts,
};
use html5ever::tree_builder::{TreeBuilder, TreeBuilderOpts};
use lol_html::errors::RewritingError;
use lol_html::{doc_comments, doc_text, doctype, element, HtmlRewriter, Settings};
use markup5ever_rcdom::{Handle, RcDom};
use std::cell::RefCell;
use std::rc::Rc;

#[derive(Clone, PartialEq, Eq, Debug)]
enum Tok {
    Start { name: String, attrs: Vec<(String, String)>, sc: bool },
    End { name: String },
    Comment(String),
    Doctype { name: Option<String>, pid: Option<String>, sid: Option<String> },
    Text(String),
}

impl Tok {
    fn show(&self) -> String {
        fn esc(s: &str) -> String {
            s.chars()
                .map(|c| if c == ' ' { "␠".to_string() } else if c.is_control() { format!("\\x{:02x}", c as u32) } else { c.to_string() })
                .collect()
        }
        match self {
            Tok::Start { name, attrs, sc } => {
                let a: Vec<String> = attrs.iter().map(|(n, v)| format!("{}={}", esc(n), esc(v))).collect();
                format!("S({}{}{}{})", esc(name), if a.is_empty() { "" } else { ":" }, a.join(","), if *sc { "/" } else { "" })
            }
            Tok::End { name } => format!("E({})", esc(name)),
            Tok::Comment(t) => format!("C({})", esc(t)),
            Tok::Doctype { name, pid, sid } => format!("D({:?},{:?},{:?})", name, pid, sid),
            Tok::Text(t) => format!("T({})", esc(t)),
        }
    }
}

/// one html5ever token with the tree builder's state around it
#[allow(dead_code)]
struct HTok {
    tok: Tok,
    /// adjusted current node present and not in the HTML namespace, before / after the token
    foreign_before: bool,
    foreign_after: bool,
}

struct Rec {
    tb: TreeBuilder<Handle, RcDom>,
    log: RefCell<Vec<HTok>>,
}

fn first_occurrences(attrs: Vec<(String, String)>) -> Vec<(String, String)> {
    let mut out: Vec<(String, String)> = vec![];
    for (n, v) in attrs {
        if !out.iter().any(|(m, _)| *m == n) {
            out.push((n, v));
        }
    }
    out
}

impl TokenSink for Rec {
    type Handle = Handle;

    fn process_token(&self, token: Token, line: u64) -> TokenSinkResult<Handle> {
        let fb = self.tb.adjusted_current_node_present_but_not_in_html_namespace();
        let rec = match &token {
            TagToken(t) => Some(match t.kind {
                StartTag => Tok::Start {
                    name: t.name.to_string(),
                    attrs: first_occurrences(
                        t.attrs.iter().map(|a| (a.name.local.to_string(), a.value.to_string())).collect(),
                    ),
                    sc: t.self_closing,
                },
                EndTag => Tok::End { name: t.name.to_string() },
            }),
            CommentToken(s) => Some(Tok::Comment(s.to_string())),
            CharacterTokens(s) => Some(Tok::Text(s.to_string())),
            NullCharacterToken => Some(Tok::Text("\0".to_string())),
            DoctypeToken(d) => Some(Tok::Doctype {
                name: d.name.as_ref().map(|s| s.to_string()),
                pid: d.public_id.as_ref().map(|s| s.to_string()),
                sid: d.system_id.as_ref().map(|s| s.to_string()),
            }),
            _ => None,
        };
        let r = self.tb.process_token(token, line);
        let fa = self.tb.adjusted_current_node_present_but_not_in_html_namespace();
        if let Some(tok) = rec {
            self.log.borrow_mut().push(HTok { tok, foreign_before: fb, foreign_after: fa });
        }
        r
    }

    fn end(&self) {
        self.tb.end()
    }

    fn adjusted_current_node_present_but_not_in_html_namespace(&self) -> bool {
        self.tb.adjusted_current_node_present_but_not_in_html_namespace()
    }
}

fn run_html5ever(html: &str) -> Vec<HTok> {
    let tb = TreeBuilder::new(RcDom::default(), TreeBuilderOpts { scripting_enabled: true, ..Default::default() });
    let tok = Tokenizer::new(Rec { tb, log: RefCell::new(vec![]) }, TokenizerOpts::default());
    let q = BufferQueue::default();
    q.push_back(StrTendril::from(html));
    // `feed` returns early on Script(handle) / EncodingIndicator with input left in the queue: carry on,
    // as `html5ever::driver::Parser` does; on Done the queue is empty
    while !q.is_empty() {
        let _ = tok.feed(&q);
    }
    tok.end();
    tok.sink.log.take()
}

fn norm_newlines(s: &str) -> String {
    s.replace("\r\n", "\n").replace('\r', "\n")
}

#[derive(Clone, Copy, PartialEq, Eq)]
enum Mode {
    All,
    El,
    Text,
    Comment,
    Doctype,
}

enum LolEnd {
    Ok,
    Ambiguity(String),
    Other(String),
}

/// lol-html events: `Tok`s, with text already merged per contiguous run (`last_in_text_node`) and
/// newline-normalised
fn run_lol(input: &[u8], cuts: &[usize], strict: bool, mode: Mode) -> (Vec<Tok>, LolEnd) {
    #[derive(Debug)]
    enum Ev {
        T(Tok),
        Chunk(String, bool),
        /// end tag at source offset (one end tag may run the handlers of several elements)
        EndAt(usize, String),
    }
    let log: Rc<RefCell<Vec<Ev>>> = Rc::new(RefCell::new(vec![]));
    let mut settings = Settings::new().with_strict(strict);
    if mode == Mode::All || mode == Mode::El {
        let l = log.clone();
        settings = settings.append_element_content_handler(element!("*", move |el: &mut lol_html::html_content::Element<'_, '_>| {
            let attrs: Vec<(String, String)> =
                el.attributes().iter().map(|a| (a.name(), norm_newlines(&a.value()))).collect();
            l.borrow_mut().push(Ev::T(Tok::Start {
                name: el.tag_name(),
                attrs: first_occurrences(attrs),
                sc: el.is_self_closing(),
            }));
            let l2 = l.clone();
            // fails on elements that cannot have content (void / self-closing foreign): no end tag expected
            let _ = el.on_end_tag(Box::new(move |end: &mut lol_html::html_content::EndTag<'_>| {
                l2.borrow_mut().push(Ev::EndAt(end.source_location().bytes().start, end.name()));
                Ok(())
            }));
            Ok(())
        }));
    }
    if mode == Mode::All || mode == Mode::Text {
        let l = log.clone();
        settings = settings.append_document_content_handler(doc_text!(move |t| {
            l.borrow_mut().push(Ev::Chunk(t.as_str().to_string(), t.last_in_text_node()));
            Ok(())
        }));
    }
    if mode == Mode::All || mode == Mode::Comment {
        let l = log.clone();
        settings = settings.append_document_content_handler(doc_comments!(move |c| {
            l.borrow_mut().push(Ev::T(Tok::Comment(norm_newlines(&c.text()))));
            Ok(())
        }));
    }
    if mode == Mode::All || mode == Mode::Doctype {
        let l = log.clone();
        settings = settings.append_document_content_handler(doctype!(move |d| {
            l.borrow_mut().push(Ev::T(Tok::Doctype {
                name: d.name(),
                pid: d.public_id().map(|s| norm_newlines(&s)),
                sid: d.system_id().map(|s| norm_newlines(&s)),
            }));
            Ok(())
        }));
    }
    let mut rw = HtmlRewriter::new(settings, |_: &[u8]| {});
    let mut res = Ok(());
    for chunk in split_at_cuts(input, cuts) {
        res = rw.write(chunk);
        if res.is_err() {
            break;
        }
    }
    if res.is_ok() {
        res = rw.end();
    }
    let end = match res {
        Ok(()) => LolEnd::Ok,
        Err(RewritingError::ParsingAmbiguity(e)) => {
            let msg = e.to_string();
            let name = msg.split("(`<").nth(1).and_then(|s| s.split(">`)").next()).unwrap_or("?").to_string();
            LolEnd::Ambiguity(name)
        }
        Err(e) => LolEnd::Other(format!("{e:?}").chars().take(60).collect()),
    };
    // merge text chunks of one run, normalise
    let mut out: Vec<Tok> = vec![];
    let mut cur = String::new();
    let mut last_end: Option<usize> = None;
    let flush = |cur: &mut String, out: &mut Vec<Tok>| {
        if !cur.is_empty() {
            out.push(Tok::Text(norm_newlines(cur)));
            cur.clear();
        }
    };
    for ev in log.borrow_mut().drain(..) {
        match ev {
            Ev::Chunk(s, last) => {
                cur.push_str(&s);
                if last {
                    flush(&mut cur, &mut out);
                }
            }
            Ev::T(t) => {
                flush(&mut cur, &mut out);
                out.push(t);
                last_end = None;
            }
            Ev::EndAt(off, name) => {
                flush(&mut cur, &mut out);
                if last_end != Some(off) {
                    out.push(Tok::End { name });
                }
                last_end = Some(off);
            }
        }
    }
    flush(&mut cur, &mut out);
    (out, end)
}

/// main projection: no end tags, adjacent text merged; each entry remembers the index of its first
/// constituent in the source stream
fn project(toks: &[Tok], mode: Mode) -> Vec<(Tok, usize)> {
    let mut out: Vec<(Tok, usize)> = vec![];
    for (i, t) in toks.iter().enumerate() {
        let keep = match (mode, t) {
            (_, Tok::End { .. }) => false,
            (Mode::All, _) => true,
            (Mode::El, Tok::Start { .. }) => true,
            (Mode::Text, Tok::Text(_)) => true,
            (Mode::Comment, Tok::Comment(_)) => true,
            (Mode::Doctype, Tok::Doctype { .. }) => true,
            _ => false,
        };
        if !keep {
            continue;
        }
        if let Tok::Text(s) = t {
            if s.is_empty() {
                continue;
            }
            if let Some((Tok::Text(prev), _)) = out.last_mut() {
                prev.push_str(s);
                continue;
            }
        }
        out.push((t.clone(), i));
    }
    out
}

fn end_tags(toks: &[Tok]) -> Vec<&str> {
    toks.iter().filter_map(|t| if let Tok::End { name } = t { Some(name.as_str()) } else { None }).collect()
}

fn is_subsequence(a: &[&str], b: &[&str]) -> bool {
    let mut j = 0;
    for x in a {
        loop {
            if j >= b.len() {
                return false;
            }
            j += 1;
            if b[j - 1] == *x {
                break;
            }
        }
    }
    true
}

const TEXT_MODE_TAGS: [&str; 10] =
    ["textarea", "title", "plaintext", "script", "style", "iframe", "xmp", "noembed", "noframes", "noscript"];
const INTEGRATION_POINT_NAMES: [&str; 9] =
    ["desc", "title", "foreignobject", "mi", "mo", "mn", "ms", "mtext", "annotation-xml"];

/// The property's ambiguity clause over a tag-token sequence: index of the first start tag at which a
/// strict run must fail. In select (until `</select>` or a start tag select | textarea | input | keygen):
/// any text-mode-switching start tag except script; template inside select (nesting counted): any;
/// in or after frameset (sticky): any except noframes.
fn expected_ambiguity(h: &[HTok]) -> Option<(usize, String)> {
    #[derive(Clone, Copy)]
    enum St {
        Default,
        InSelect,
        InTemplateInSelect(u64),
        Frameset,
    }
    let mut st = St::Default;
    for (i, ht) in h.iter().enumerate() {
        match &ht.tok {
            Tok::Start { name, .. } => {
                let n = name.as_str();
                let text_mode = TEXT_MODE_TAGS.contains(&n);
                match st {
                    St::Default => {
                        if n == "select" {
                            st = St::InSelect
                        } else if n == "frameset" {
                            st = St::Frameset
                        }
                    }
                    St::InSelect => {
                        if text_mode && n != "script" && n != "textarea" {
                            return Some((i, name.clone()));
                        }
                        if ["select", "textarea", "input", "keygen"].contains(&n) {
                            st = St::Default
                        } else if n == "template" {
                            st = St::InTemplateInSelect(1)
                        }
                    }
                    St::InTemplateInSelect(d) => {
                        if text_mode {
                            return Some((i, name.clone()));
                        }
                        if n == "template" {
                            st = St::InTemplateInSelect(d + 1)
                        }
                    }
                    St::Frameset => {
                        if text_mode && n != "noframes" {
                            return Some((i, name.clone()));
                        }
                    }
                }
            }
            Tok::End { name } => match st {
                St::InSelect if name == "select" => st = St::Default,
                St::InTemplateInSelect(d) if name == "template" => {
                    st = if d == 1 { St::InSelect } else { St::InTemplateInSelect(d - 1) }
                }
                _ => {}
            },
            _ => {}
        }
    }
    None
}

/// does the source contain a start tag of a text-mode element that ends in `=` [whitespace] `>`?
fn has_f1_shape(input: &[u8]) -> bool {
    let lower: Vec<u8> = input.iter().map(|b| b.to_ascii_lowercase()).collect();
    for p in 0..lower.len() {
        if lower[p] != b'<' {
            continue;
        }
        for name in TEXT_MODE_TAGS {
            let nb = name.as_bytes();
            if lower[p + 1..].starts_with(nb) {
                let after = p + 1 + nb.len();
                if after < lower.len() && !(lower[after].is_ascii_whitespace() || lower[after] == b'/') {
                    continue;
                }
                if let Some(q) = lower[after..].iter().position(|&b| b == b'>') {
                    let mut e = after + q;
                    while e > after && lower[e - 1].is_ascii_whitespace() {
                        e -= 1;
                    }
                    if e > after && lower[e - 1] == b'=' {
                        return true;
                    }
                }
            }
        }
    }
    false
}

const HTML_VOID: [&str; 17] = [
    "area", "base", "basefont", "bgsound", "br", "col", "embed", "hr", "img", "input", "keygen", "link", "meta", "param",
    "source", "track", "wbr",
];

#[derive(Clone, Copy, PartialEq, Eq)]
enum Kind {
    Html,
    Foreign,
    /// a foreign element that is an integration point (HTML inside)
    ForeignIp,
}

/// a known shape: html5ever token index where it starts, last token index it can explain (`usize::MAX`:
/// the two parsers are out of step from there on), tag
struct Shape {
    start: usize,
    end: usize,
    tag: &'static str,
}

#[derive(Clone, Copy, PartialEq, Eq)]
enum TMode {
    /// "in template" still on top of the template insertion modes
    Fresh,
    /// `<col>` seen first: "in column group" with the template as current node — everything but
    /// whitespace, comments, `col`, `template` is ignored
    ColGroup,
    Other,
}

/// start tags that "in template" hands to "in head" without replacing the template insertion mode
const TEMPLATE_HEAD_TAGS: [&str; 10] =
    ["base", "basefont", "bgsound", "link", "meta", "noframes", "script", "style", "template", "title"];
/// start tags whose "in body" rule sets the frameset-ok flag to "not ok"
const FRAMESET_NOT_OK_TAGS: [&str; 24] = [
    "li", "dd", "dt", "pre", "listing", "button", "table", "hr", "area", "br", "embed", "img", "image", "keygen", "wbr",
    "input", "textarea", "xmp", "iframe", "select", "applet", "marquee", "object", "plaintext",
];
const MATH_TEXT_IPS: [&str; 5] = ["mi", "mo", "mn", "ms", "mtext"];
const TABLE_STRUCTURE_TAGS: [&str; 9] = ["caption", "col", "colgroup", "tbody", "td", "tfoot", "th", "thead", "tr"];
/// HTML elements "reset the insertion mode appropriately" looks at
const MODE_ELEMENTS: [&str; 15] = [
    "td", "th", "tr", "tbody", "thead", "tfoot", "caption", "colgroup", "table", "template", "head", "body", "frameset",
    "html", "select",
];

/// last token before the first `</name>` after token `from` (at that end tag both parsers are in step again)
fn next_end(h: &[HTok], from: usize, name: &str) -> usize {
    if name == "plaintext" {
        return usize::MAX;
    }
    h.iter()
        .enumerate()
        .skip(from + 1)
        .find_map(|(j, t)| matches!(&t.tok, Tok::End { name: n } if n == name).then_some(j - 1))
        .unwrap_or(usize::MAX)
}

/// Known shapes, found by a small open-element scan over html5ever's tags that is exact on well-nested
/// documents (and follows the few tree-builder rules named below on the rest).
///  F2: a self-closing `svg` / `math` start tag where HTML content is expected;
///  F11: an `svg` / `math` start tag directly inside foreign (non-integration-point) content;
///  F12: an end tag carrying an integration-point name that closes an HTML element inside an integration point;
///  Ftb1: a text-mode-switching start tag while a `template` whose first table-ish child was `<col>` is the
///        current node ("in column group", current node not colgroup: ignored); explains up to its end tag;
///  Ftb2: a `select` opened inside a `template` and popped by `</template>` without `</select>` (lol-html's
///        guard stays "in select"), then `<frameset>`, then `<script>` / `<textarea>` (not refused by the
///        guard in that state; ignored "in frameset"); explains up to its end tag;
///  Ftb4: a non-self-closing `mglyph` / `malignmark` start tag whose parent is a MathML text integration point
///        (foreign rules in the standard, HTML for lol-html); explains until that element is closed (or, if later,
///        until the end tag of a text-mode element opened inside it);
///  Ftb5: a `frameset` start tag inside an integration point that the tree builder accepts (pops the island);
///  Ftb7: a table-structure start tag (caption col colgroup tbody td tfoot th thead tr; `table` where the mode is
///        in table / in table body / in row) under HTML rules inside an integration point whose island sits in a
///        table: the nearest mode-giving HTML element on the stack is a table part *below* the island; also the
///        end-tag form (a table-part end tag inside the integration point whose element is below the island);
///  Ftb8: an end tag, not the integration point's own, arriving while the integration-point element is the
///        current node, with a like-named foreign ancestor reachable through foreign elements only.
fn known_shapes(h: &[HTok]) -> Vec<Shape> {
    let mut stack: Vec<(String, Kind)> = vec![];
    let mut out: Vec<Shape> = vec![];
    // open HTML templates: (position in `stack`, mode)
    let mut templates: Vec<(usize, TMode)> = vec![];
    // lol-html's guard, as far as Ftb2 needs it
    let mut in_select = false;
    let mut sel_templates = 0usize;
    let mut stuck = false;
    let mut frameset_after_stuck = false;
    let mut frameset_ok = true;
    // open mglyph / malignmark of an Ftb4 shape: (position in `stack`, index in `out`, last token index at which
    // a text-mode element opened inside it ends for lol-html)
    let mut mglyphs: Vec<(usize, usize, usize)> = vec![];

    fn close_mglyphs(stack_len: usize, i: usize, mglyphs: &mut Vec<(usize, usize, usize)>, out: &mut [Shape]) {
        while let Some(&(pos, oi, text_end)) = mglyphs.last() {
            if pos < stack_len {
                break;
            }
            mglyphs.pop();
            out[oi].end = i.saturating_sub(1).max(text_end);
        }
    }

    for (i, t) in h.iter().enumerate() {
        // The scan stack follows the tags; the tree builder also closes elements implicitly (adoption agency,
        // `<p>` closed by `<hr>`, …) and ignores some start tags. Where html5ever says that its current node is
        // foreign while the scan has HTML elements on top of a foreign one, those are gone: drop them.
        if t.foreign_before
            && matches!(t.tok, Tok::Start { .. } | Tok::End { .. })
            && stack.last().is_some_and(|x| x.1 == Kind::Html)
        {
            if let Some(p) = stack.iter().rposition(|x| x.1 != Kind::Html) {
                stack.truncate(p + 1);
                close_mglyphs(stack.len(), i, &mut mglyphs, &mut out);
                templates.retain(|(pos, _)| *pos < stack.len());
            }
        }
        match &t.tok {
            Tok::Start { name, attrs, sc } => {
                let n = name.as_str();
                let (top_name, top) =
                    stack.last().map(|x| (x.0.as_str(), x.1)).unwrap_or(("", Kind::Html));
                let in_math_text_ip = top == Kind::ForeignIp && MATH_TEXT_IPS.contains(&top_name);
                let mglyph = in_math_text_ip && (n == "mglyph" || n == "malignmark");
                let html_rules = top != Kind::Foreign && !mglyph;
                let text_mode = TEXT_MODE_TAGS.contains(&n);

                // lol-html's guard looks at names only
                if !in_select {
                    if n == "select" {
                        in_select = true;
                        sel_templates = templates.len();
                        stuck = false;
                        frameset_after_stuck = false;
                    }
                } else {
                    if stuck && frameset_after_stuck && (n == "script" || n == "textarea") {
                        out.push(Shape { start: i, end: next_end(h, i, n), tag: "Ftb2-frameset-after-select-popped-with-template" });
                    }
                    if ["select", "textarea", "input", "keygen", "template"].contains(&n) {
                        in_select = false;
                        stuck = false;
                    } else if n == "frameset" && stuck {
                        frameset_after_stuck = true;
                    }
                }

                // "in column group" with a template as the current node
                if html_rules {
                    if let Some(&(pos, TMode::ColGroup)) = templates.last() {
                        if stack.len() == pos + 1 && n != "template" {
                            if text_mode {
                                out.push(Shape { start: i, end: next_end(h, i, n), tag: "Ftb1-ignored-text-tag-in-template-column-group" });
                            }
                            continue; // ignored (col: inserted and popped)
                        }
                    }
                    if let Some(last) = templates.last_mut() {
                        if last.1 == TMode::Fresh && stack.len() == last.0 + 1 {
                            if n == "col" {
                                last.1 = TMode::ColGroup;
                            } else if !TEMPLATE_HEAD_TAGS.contains(&n) {
                                last.1 = TMode::Other;
                            }
                        }
                    }
                }

                // a table-structure start tag inside an integration point of an island that sits in a table:
                // the rules of the table insertion mode (given by the nearest td th caption tr tbody thead tfoot
                // colgroup table … below the island) act on it and pop the island
                if html_rules && (TABLE_STRUCTURE_TAGS.contains(&n) || n == "table") {
                    let ip_pos = stack.iter().rposition(|x| x.1 == Kind::ForeignIp);
                    let det = stack.iter().rposition(|x| x.1 == Kind::Html && MODE_ELEMENTS.contains(&x.0.as_str()));
                    if let (Some(ip_pos), Some(p)) = (ip_pos, det) {
                        let ctx = stack[p].0.as_str();
                        let acts = match ctx {
                            "td" | "th" | "caption" => n != "table",
                            "tr" | "tbody" | "thead" | "tfoot" | "table" | "colgroup" => true,
                            _ => false,
                        };
                        // directly in the integration point html5ever tells whether the island went
                        let confirmed = !t.foreign_before || !t.foreign_after;
                        if p < ip_pos && acts && confirmed {
                            out.push(Shape { start: i, end: usize::MAX, tag: "Ftb7-table-structure-tag-in-integration-point" });
                            stack.truncate(if matches!(ctx, "td" | "th" | "caption") { p } else { p + 1 });
                            close_mglyphs(stack.len(), i, &mut mglyphs, &mut out);
                            templates.retain(|(pos, _)| *pos < stack.len());
                        } else if p > ip_pos && n == "table" && acts {
                            // a table of its own inside the integration point: `<table>` in a table mode closes it
                            if let Some(q) = stack.iter().rposition(|x| x.1 == Kind::Html && x.0 == "table") {
                                stack.truncate(q);
                            }
                        }
                    }
                }

                // frameset inside an integration point, accepted by the tree builder
                if html_rules && n == "frameset" && stack.iter().any(|x| x.1 == Kind::ForeignIp) {
                    let accepted = if t.foreign_before { !t.foreign_after } else { frameset_ok };
                    if accepted {
                        out.push(Shape { start: i, end: usize::MAX, tag: "Ftb5-frameset-in-integration-point" });
                        close_mglyphs(0, i, &mut mglyphs, &mut out);
                        stack.clear();
                        templates.clear();
                        continue;
                    }
                }
                if html_rules && FRAMESET_NOT_OK_TAGS.contains(&n) {
                    frameset_ok = false;
                }
                if text_mode {
                    let e = next_end(h, i, n);
                    for m in mglyphs.iter_mut() {
                        m.2 = m.2.max(e);
                    }
                }

                let root = n == "svg" || n == "math";
                let kind = if mglyph {
                    Kind::Foreign
                } else if root {
                    if top == Kind::Foreign {
                        out.push(Shape { start: i, end: usize::MAX, tag: "F11-foreign-root-inside-foreign" });
                    } else if *sc {
                        out.push(Shape { start: i, end: usize::MAX, tag: "F2-self-closing-foreign-root" });
                    }
                    Kind::Foreign
                } else if top == Kind::Foreign {
                    let ip = match n {
                        "desc" | "title" | "foreignobject" | "mi" | "mo" | "mn" | "ms" | "mtext" => true,
                        "annotation-xml" => attrs.iter().any(|(an, v)| {
                            an == "encoding"
                                && (v.eq_ignore_ascii_case("text/html") || v.eq_ignore_ascii_case("application/xhtml+xml"))
                        }),
                        _ => false,
                    };
                    if ip { Kind::ForeignIp } else { Kind::Foreign }
                } else {
                    Kind::Html
                };
                let void = if kind == Kind::Html { HTML_VOID.contains(&n) } else { *sc };
                if !void {
                    stack.push((name.clone(), kind));
                    if mglyph {
                        out.push(Shape { start: i, end: usize::MAX, tag: "Ftb4-mglyph-malignmark-in-text-integration-point" });
                        mglyphs.push((stack.len() - 1, out.len() - 1, 0));
                    }
                    if n == "template" && kind == Kind::Html {
                        templates.push((stack.len() - 1, TMode::Fresh));
                    }
                }
            }
            Tok::End { name } => {
                let n = name.as_str();
                let top = stack.last().map(|x| x.1).unwrap_or(Kind::Html);
                if let Some(&(pos, TMode::ColGroup)) = templates.last() {
                    if top != Kind::Foreign && stack.len() == pos + 1 && n != "template" {
                        continue; // ignored
                    }
                }
                // The current node is the integration-point element itself and the end tag is not its own: the
                // rules for foreign content walk down the stack through foreign elements; a like-named foreign
                // ancestor is popped together with the integration point.
                if top == Kind::ForeignIp && t.foreign_before && stack.last().is_some_and(|x| x.0 != *name) {
                    let mut p = stack.len() - 1;
                    let mut found = None;
                    while p > 0 {
                        p -= 1;
                        if stack[p].1 == Kind::Html {
                            break;
                        }
                        if stack[p].0 == *name {
                            found = Some(p);
                            break;
                        }
                    }
                    if let Some(p) = found {
                        out.push(Shape { start: i, end: usize::MAX, tag: "Ftb8-end-tag-walks-to-foreign-ancestor" });
                        stack.truncate(p);
                        close_mglyphs(stack.len(), i, &mut mglyphs, &mut out);
                        templates.retain(|(pos, _)| *pos < stack.len());
                        continue;
                    }
                }
                // end-tag form of Ftb7: a table-part end tag whose element is outside the island reaches the rules
                // of the table insertion mode ("in cell": `</table>` … close the cell) and pops the island
                if top != Kind::Foreign && ["table", "tbody", "tfoot", "thead", "tr", "td", "th", "caption"].contains(&n) {
                    let ip_pos = stack.iter().rposition(|x| x.1 == Kind::ForeignIp);
                    let det = stack.iter().rposition(|x| x.1 == Kind::Html && MODE_ELEMENTS.contains(&x.0.as_str()));
                    let target = stack.iter().rposition(|x| x.1 == Kind::Html && x.0 == *name);
                    if let (Some(ip_pos), Some(p), Some(q)) = (ip_pos, det, target) {
                        let table_mode = matches!(
                            stack[p].0.as_str(),
                            "td" | "th" | "caption" | "tr" | "tbody" | "thead" | "tfoot" | "table" | "colgroup"
                        );
                        if p < ip_pos && q < ip_pos && table_mode {
                            out.push(Shape { start: i, end: usize::MAX, tag: "Ftb7-table-structure-tag-in-integration-point" });
                        }
                    }
                }
                if top == Kind::Html
                    && INTEGRATION_POINT_NAMES.contains(&n)
                    && stack.iter().any(|x| x.1 == Kind::ForeignIp)
                {
                    out.push(Shape { start: i, end: usize::MAX, tag: "F12-integration-point-named-end-tag" });
                }
                if in_select && n == "select" {
                    in_select = false;
                    stuck = false;
                }
                // Under HTML rules inside an integration point an end tag does not reach an element below the
                // island: the scopes ("has a p element in button scope", …) and the "any other end tag" walk stop at
                // the integration-point element (a stray `</p>` makes an empty p). Only the table parts do (Ftb7).
                let ip_pos = stack.iter().rposition(|x| x.1 == Kind::ForeignIp);
                let target = stack.iter().rposition(|x| x.0 == *name);
                let stops_at_island = top != Kind::Foreign
                    && !["table", "tbody", "tfoot", "thead", "tr", "td", "th", "caption"].contains(&n)
                    && matches!((ip_pos, target), (Some(ip), Some(q)) if q < ip);
                if let Some(p) = target.filter(|_| !stops_at_island) {
                    stack.truncate(p);
                    close_mglyphs(stack.len(), i, &mut mglyphs, &mut out);
                    templates.retain(|(pos, _)| *pos < stack.len());
                    if in_select && !stuck && templates.len() < sel_templates {
                        // the template the select was opened in is closed: the select went with it
                        stuck = true;
                    }
                }
            }
            Tok::Text(s) => {
                let top_name = stack.last().map(|x| x.0.as_str()).unwrap_or("");
                if s.chars().any(|c| !c.is_ascii_whitespace()) && !TEXT_MODE_TAGS.contains(&top_name) {
                    frameset_ok = false;
                }
            }
            _ => {}
        }
    }
    out
}

/// name the shape of a divergence whose first differing entry starts at html5ever token `lo` and ends before
/// token `hi` (known findings first)
fn classify(
    h: &[HTok],
    lo: usize,
    hi: usize,
    input: &[u8],
    pair: Option<(&Tok, Option<&Tok>, Option<&Tok>)>,
) -> &'static str {
    let div = hi;
    let upto = &h[..(div + 1).min(h.len())];
    let last_start = upto.iter().rev().skip(1).find_map(|t| match &t.tok {
        Tok::Start { name, .. } => Some(name.as_str()),
        _ => None,
    });
    if last_start.is_some_and(|n| TEXT_MODE_TAGS.contains(&n)) && has_f1_shape(input) {
        return "F1-attr-value-gt-text-mode";
    }
    if let Some(s) = known_shapes(h).into_iter().find(|s| s.start <= hi && lo <= s.end) {
        return s.tag;
    }
    // finding R2: `<![CDATA[` directly inside an integration-point element: a CDATA section for the standard
    // (the adjusted current node is the foreign element), a bogus comment for lol-html
    match pair {
        // (html5ever has the section's text there, or — empty section — whatever token comes next)
        Some((Tok::Comment(c), _, _)) if c.starts_with("[CDATA[") => {
            return "R2-cdata-directly-in-integration-point";
        }
        // text before the CDATA section: html5ever's text run continues where lol-html starts a comment
        Some((Tok::Text(a), Some(Tok::Text(b)), Some(Tok::Comment(c)))) if c.starts_with("[CDATA[") && b.starts_with(a.as_str()) => {
            return "R2-cdata-directly-in-integration-point";
        }
        _ => {}
    }
    "token-stream-differs"
}

fn first_diff(a: &[(Tok, usize)], b: &[(Tok, usize)]) -> Option<usize> {
    let n = a.len().min(b.len());
    for i in 0..n {
        if a[i].0 != b[i].0 {
            return Some(i);
        }
    }
    if a.len() != b.len() { Some(n) } else { None }
}

fn show_at(p: &[(Tok, usize)], i: usize) -> String {
    p.get(i).map(|t| t.0.show()).unwrap_or_else(|| "<end>".into())
}

pub fn run(line: &str) -> String {
    let mut it = line.split_whitespace();
    let (Some(mode_s), Some(hexs), Some(cuts_s)) = (it.next(), it.next(), it.next()) else {
        return "bad-case".into();
    };
    let mode = match mode_s {
        "all" => Mode::All,
        "el" => Mode::El,
        "text" => Mode::Text,
        "comment" => Mode::Comment,
        "doctype" => Mode::Doctype,
        _ => return "bad-case".into(),
    };
    let (Some(bytes), Some(cuts)) = (of_hex(hexs), nat_list(cuts_s)) else { return "bad-case".into() };
    let Ok(html) = String::from_utf8(bytes.clone()) else { return "bad-case not-utf8".into() };

    let h = run_html5ever(&html);
    let htoks: Vec<Tok> = h.iter().map(|t| t.tok.clone()).collect();
    let (l, lend) = run_lol(&bytes, &cuts, true, mode);
    let mut oracle: Vec<String> = vec![];

    let count = |toks: &[Tok]| {
        let p = project(toks, mode);
        let c = |f: fn(&Tok) -> bool| p.iter().filter(|t| f(&t.0)).count();
        format!(
            "s={} e={} t={} c={} d={}",
            c(|t| matches!(t, Tok::Start { .. })),
            end_tags(toks).len(),
            c(|t| matches!(t, Tok::Text(_))),
            c(|t| matches!(t, Tok::Comment(_))),
            c(|t| matches!(t, Tok::Doctype { .. }))
        )
    };

    let obs;
    match &lend {
        LolEnd::Other(e) => {
            obs = format!("err {e}");
            oracle.push(format!("unexpected-error {e}"));
        }
        LolEnd::Ok | LolEnd::Ambiguity(_) => {
            let expected = expected_ambiguity(&h);
            // the part of html5ever's stream lol-html is expected to have reported
            let hcut: &[Tok] = match (&lend, &expected) {
                (LolEnd::Ambiguity(_), Some((i, _))) => &htoks[..*i],
                _ => &htoks[..],
            };
            let pl = project(&l, mode);
            let ph = project(hcut, mode);
            let diff = first_diff(&pl, &ph);
            match (&lend, &expected) {
                (LolEnd::Ok, None) => {}
                (LolEnd::Ambiguity(n), Some((_, m))) => {
                    if n != m || diff.is_some() {
                        // a divergence before the expected failure point is reported below; here only
                        // the "right tag, right place" check
                        if diff.is_none() {
                            oracle.push(format!("ambiguity-at-wrong-place lol=<{n}> expected=<{m}>"));
                        }
                    }
                }
                (LolEnd::Ambiguity(n), None) => {
                    if diff.is_none() || diff == Some(pl.len()) {
                        // Was it a start tag that never became a token (input ends inside the tag)? Complete
                        // the tag and look again: the tag scanner asks the guard at the end of the tag *name*.
                        let unfinished = [">", "\">", "'>"].iter().any(|sfx| {
                            let h2 = run_html5ever(&format!("{html}{sfx}"));
                            matches!(expected_ambiguity(&h2), Some((i, m)) if m == *n && i + 1 >= h.len())
                        });
                        if unfinished {
                            oracle.push(format!("strict-fails-on-unfinished-tag <{n} … EOF"));
                        } else {
                            oracle.push(format!("strict-failed-unexpectedly on <{n}>"));
                        }
                    }
                }
                (LolEnd::Ok, Some((i, m))) => {
                    // only meaningful when the streams agree up to that tag
                    let agree_upto = diff.is_none_or(|d| ph.get(d).is_none_or(|t| t.1 > *i));
                    if agree_upto && (mode == Mode::All || mode == Mode::El) {
                        oracle.push(format!("strict-not-failed expected failure on <{m}> (html5ever token {i})"));
                    }
                }
                _ => {}
            }
            if let Some(d) = diff {
                // when lol-html stopped early on an (expected or not) ambiguity, a pure prefix is not a
                // token difference
                let prefix_only = matches!(lend, LolEnd::Ambiguity(_)) && d == pl.len() && expected.is_none();
                if !prefix_only {
                    // classify on the full streams (in a single-kind mode the place of the divergence in the
                    // full stream is not visible): same tag whatever the capture set
                    let (pl_all, ph_all) = if mode == Mode::All {
                        (pl.clone(), ph.clone())
                    } else {
                        let (l_all, _) = run_lol(&bytes, &cuts, true, Mode::All);
                        (project(&l_all, Mode::All), project(hcut, Mode::All))
                    };
                    let tag = match first_diff(&pl_all, &ph_all) {
                        Some(da) => {
                            // the html5ever token at which the two streams part: the first token of the differing
                            // entry — for two text runs the constituent that holds the first differing byte (runs
                            // are merged across dropped end tags), and when html5ever's text is a proper prefix
                            // of lol-html's, the first token of html5ever's next entry
                            let first_of = |e: usize| ph_all.get(e).map(|t| t.1).unwrap_or(hcut.len());
                            let hidx = match (pl_all.get(da), ph_all.get(da)) {
                                (Some((Tok::Text(a), _)), Some((Tok::Text(b), first))) => {
                                    let cp = a.bytes().zip(b.bytes()).take_while(|(x, y)| x == y).count();
                                    if cp >= b.len() {
                                        first_of(da + 1)
                                    } else {
                                        let stop = first_of(da + 1);
                                        let mut acc = 0usize;
                                        let mut at = *first;
                                        for j in *first..stop {
                                            if let Tok::Text(s) = &hcut[j] {
                                                at = j;
                                                acc += s.len();
                                                if acc > cp {
                                                    break;
                                                }
                                            }
                                        }
                                        at
                                    }
                                }
                                _ => first_of(da),
                            };
                            // … and from the token after the last agreeing entry on (end tags are not entries:
                            // text that html5ever reads as an end tag makes the *next* entry differ)
                            let lo = if da > 0 { ph_all[da - 1].1 + 1 } else { 0 };
                            let pair = pl_all.get(da).map(|a| (&a.0, ph_all.get(da).map(|t| &t.0), pl_all.get(da + 1).map(|t| &t.0)));
                            classify(&h, lo, hidx, &bytes, pair)
                        }
                        None => "token-stream-differs-in-single-kind-mode-only",
                    };
                    oracle.push(format!(
                        "{tag} at {d}: lol={} h5={} (prev {})",
                        show_at(&pl, d),
                        show_at(&ph, d),
                        if d > 0 { show_at(&ph, d - 1) } else { "-".into() }
                    ));
                }
            } else if (mode == Mode::All || mode == Mode::El) && !is_subsequence(&end_tags(&l), &end_tags(hcut)) {
                let tag = match classify(&h, 0, h.len(), &bytes, None) {
                    "token-stream-differs" => "end-tags-not-subsequence",
                    known => known,
                };
                oracle.push(format!("{tag} (end tags) lol={:?} h5={:?}", end_tags(&l), end_tags(hcut)));
            }
            // strict success ⇒ identical to the non-strict run; chunking must not matter
            if matches!(lend, LolEnd::Ok) {
                let (l2, e2) = run_lol(&bytes, &cuts, false, mode);
                if !matches!(e2, LolEnd::Ok) || l2 != l {
                    oracle.push("strict-differs-from-nonstrict".into());
                }
            }
            if !cuts.is_empty() {
                let (l3, e3) = run_lol(&bytes, &[], true, mode);
                let same_end = match (&lend, &e3) {
                    (LolEnd::Ok, LolEnd::Ok) => true,
                    (LolEnd::Ambiguity(a), LolEnd::Ambiguity(b)) => a == b,
                    _ => false,
                };
                if !same_end || project(&l3, mode) != pl || end_tags(&l3) != end_tags(&l) {
                    oracle.push("chunking-changes-tokens".into());
                }
            }
            obs = match &lend {
                LolEnd::Ambiguity(n) => format!("ambig {n} {}", count(&l)),
                _ => format!("ok {}", count(&l)),
            };
        }
    }
    if oracle.is_empty() {
        obs
    } else {
        let tagged: Vec<String> = oracle.iter().map(|o| format!("C03:{o}")).collect();
        format!("{obs} ||ORACLE:{}", tagged.join(" ||ORACLE:"))
    }
}
