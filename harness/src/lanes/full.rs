//! Lane `full`: the REAL public `HtmlRewriter` on raw bytes with scripted handlers.
//! Protocol: lean/LolHtml/Lane/Full.lean. The op grammar is the one of lane `edit`
//! (lean/LolHtml/Lane/Edit.lean); the replay functions mirror harness/src/lanes/edit.rs.
use crate::util::*;
use lol_html::errors::RewritingError;
use lol_html::html_content::{Comment, ContentType, Doctype, DocumentEnd, Element, EndTag, StartTag, TextChunk};
use lol_html::{DocumentContentHandlers, ElementContentHandlers, HtmlRewriter, MemorySettings, Selector, Settings};
use std::borrow::Cow;
use std::cell::{Cell, RefCell};
use std::rc::Rc;

type HRes = Result<(), Box<dyn std::error::Error + Send + Sync>>;

#[derive(Clone, Debug)]
enum Content {
    Buf(String, bool), // (content, is_text)
    Stream(Vec<(String, bool)>),
}

#[derive(Clone, Debug)]
enum Op {
    Before(Content),
    After(Content),
    Replace(Content),
    Prepend(Content),
    Append(Content),
    SetInner(Content),
    Remove,
    RemoveKeep,
    SetTagName(String),
    SetName(String),
    SetAttr(String, String),
    RemoveAttr(String),
    SetText(String),
    SetStr(String),
    StartTag(Box<Op>),
    OnEndTag(Vec<Op>),
    EndAppend(String, bool),
}

#[derive(Clone, Copy, Debug, PartialEq, Eq)]
enum Kind {
    Element,
    Comment,
    Text,
    Doctype,
    End,
}

type Scripts = Vec<(Vec<Op>, bool)>;

#[derive(Default, Clone)]
struct SelEntry {
    element: Option<Scripts>,
    comments: Option<Scripts>,
    text: Option<Scripts>,
}

#[derive(Default, Clone)]
struct DocEntry {
    doctype: Option<Scripts>,
    comments: Option<Scripts>,
    text: Option<Scripts>,
    end: Option<Scripts>,
}

fn p_str(s: &str) -> Option<String> {
    String::from_utf8(of_hex(s)?).ok()
}

fn p_write(s: &str) -> Option<(String, bool)> {
    let (k, rest) = s.split_at_checked(1)?;
    match k {
        "h" => Some((p_str(rest)?, false)),
        "t" => Some((p_str(rest)?, true)),
        _ => None,
    }
}

fn p_content(s: &str) -> Option<Content> {
    if let Some(rest) = s.strip_prefix('s') {
        if rest.is_empty() {
            return Some(Content::Stream(vec![]));
        }
        return Some(Content::Stream(rest.split('_').map(p_write).collect::<Option<Vec<_>>>()?));
    }
    let (c, t) = p_write(s)?;
    Some(Content::Buf(c, t))
}

fn p_op(kind: Kind, f: &[&str], nested: bool) -> Option<Op> {
    use Kind::*;
    let mutable = kind != Doctype && kind != End;
    Some(match (f[0], f.len()) {
        ("bf", 2) if mutable => Op::Before(p_content(f[1])?),
        ("af", 2) if mutable => Op::After(p_content(f[1])?),
        ("rp", 2) if mutable => Op::Replace(p_content(f[1])?),
        ("rm", 1) if kind != End => Op::Remove,
        ("pp", 2) if kind == Element && !nested => Op::Prepend(p_content(f[1])?),
        ("ap", 2) if kind == Element && !nested => Op::Append(p_content(f[1])?),
        ("ap", 2) if kind == End => {
            let (c, t) = p_write(f[1])?;
            Op::EndAppend(c, t)
        }
        ("si", 2) if kind == Element && !nested => Op::SetInner(p_content(f[1])?),
        ("rk", 1) if kind == Element && !nested => Op::RemoveKeep,
        ("tn", 2) if kind == Element && !nested => Op::SetTagName(p_str(f[1])?),
        ("sn", 2) if nested => Op::SetName(p_str(f[1])?),
        ("sa", 3) if kind == Element => Op::SetAttr(p_str(f[1])?, p_str(f[2])?),
        ("ra", 2) if kind == Element => Op::RemoveAttr(p_str(f[1])?),
        ("sx", 2) if kind == Comment => Op::SetText(p_str(f[1])?),
        ("ss", 2) if kind == Text => Op::SetStr(p_str(f[1])?),
        ("st", 2) if kind == Element && !nested => {
            let g: Vec<&str> = f[1].split('~').collect();
            Op::StartTag(Box::new(p_op(Element, &g, true)?))
        }
        ("oe", 2) if kind == Element && !nested => {
            if f[1] == "-" {
                Op::OnEndTag(vec![])
            } else {
                let mut ops = vec![];
                for o in f[1].split('+') {
                    let g: Vec<&str> = o.split('~').collect();
                    match g[0] {
                        "bf" | "af" | "rp" | "rm" | "sn" => ops.push(p_op(Comment, &g, true)?),
                        _ => return None,
                    }
                }
                Op::OnEndTag(ops)
            }
        }
        _ => return None,
    })
}

fn p_script(kind: Kind, s: &str) -> Option<(Vec<Op>, bool)> {
    let (s, fail) = match s.strip_suffix('!') {
        Some(r) => (r, true),
        None => (s, false),
    };
    if s == "-" {
        return Some((vec![], fail));
    }
    let ops = s
        .split(',')
        .map(|o| {
            let f: Vec<&str> = o.split('.').collect();
            p_op(kind, &f, false)
        })
        .collect::<Option<Vec<_>>>()?;
    Some((ops, fail))
}

fn p_scripts(kind: Kind, s: &str) -> Option<Scripts> {
    s.split('|').map(|x| p_script(kind, x)).collect()
}

fn p_handlers(s: &str) -> Option<(Vec<SelEntry>, Vec<DocEntry>)> {
    let mut sels = vec![];
    let mut docs = vec![];
    if s == "-" {
        return Some((sels, docs));
    }
    for e in s.split(';') {
        let f: Vec<&str> = e.split('/').collect();
        match f[0] {
            "S" => {
                if !docs.is_empty() {
                    return None;
                }
                let mut h = SelEntry::default();
                for x in &f[1..] {
                    let (k, sc) = x.split_once('=')?;
                    match k {
                        "e" => h.element = Some(p_scripts(Kind::Element, sc)?),
                        "c" => h.comments = Some(p_scripts(Kind::Comment, sc)?),
                        "t" => h.text = Some(p_scripts(Kind::Text, sc)?),
                        _ => return None,
                    }
                }
                sels.push(h);
            }
            "D" => {
                let mut h = DocEntry::default();
                for x in &f[1..] {
                    let (k, sc) = x.split_once('=')?;
                    match k {
                        "d" => h.doctype = Some(p_scripts(Kind::Doctype, sc)?),
                        "c" => h.comments = Some(p_scripts(Kind::Comment, sc)?),
                        "t" => h.text = Some(p_scripts(Kind::Text, sc)?),
                        "z" => h.end = Some(p_scripts(Kind::End, sc)?),
                        _ => return None,
                    }
                }
                docs.push(h);
            }
            _ => return None,
        }
    }
    Some((sels, docs))
}

// ------------------------------------------------------------------------------------------------
// replaying scripts on the real API

fn ct(is_text: bool) -> ContentType {
    if is_text { ContentType::Text } else { ContentType::Html }
}

fn streaming(writes: Vec<(String, bool)>) -> Box<dyn lol_html::html_content::StreamingHandler + Send> {
    lol_html::streaming!(move |sink| {
        for (c, t) in &writes {
            sink.write_str(c, ct(*t));
        }
        Ok(())
    })
}

macro_rules! content_op {
    ($unit:expr, $c:expr, $plain:ident, $stream:ident) => {
        match $c {
            Content::Buf(s, t) => $unit.$plain(s, ct(*t)),
            Content::Stream(w) => $unit.$stream(streaming(w.clone())),
        }
    };
}

fn apply_start_tag(st: &mut StartTag<'_>, op: &Op) {
    match op {
        Op::Before(c) => content_op!(st, c, before, streaming_before),
        Op::After(c) => content_op!(st, c, after, streaming_after),
        Op::Replace(c) => content_op!(st, c, replace, streaming_replace),
        Op::Remove => st.remove(),
        Op::SetName(n) => st.set_name(n.clone()),
        Op::SetAttr(n, v) => {
            let _ = st.set_attribute(n, v);
        }
        Op::RemoveAttr(n) => st.remove_attribute(n),
        _ => unreachable!("start tag op"),
    }
}

fn apply_end_tag(et: &mut EndTag<'_>, op: &Op) {
    match op {
        Op::Before(c) => content_op!(et, c, before, streaming_before),
        Op::After(c) => content_op!(et, c, after, streaming_after),
        Op::Replace(c) => content_op!(et, c, replace, streaming_replace),
        Op::Remove => et.remove(),
        Op::SetName(n) => et.set_name(n.clone()),
        _ => unreachable!("end tag op"),
    }
}

fn apply_comment(c: &mut Comment<'_>, op: &Op) {
    match op {
        Op::Before(x) => content_op!(c, x, before, streaming_before),
        Op::After(x) => content_op!(c, x, after, streaming_after),
        Op::Replace(x) => content_op!(c, x, replace, streaming_replace),
        Op::Remove => c.remove(),
        Op::SetText(t) => {
            let _ = c.set_text(t);
        }
        _ => unreachable!("comment op"),
    }
}

fn apply_text(c: &mut TextChunk<'_>, op: &Op) {
    match op {
        Op::Before(x) => content_op!(c, x, before, streaming_before),
        Op::After(x) => content_op!(c, x, after, streaming_after),
        Op::Replace(x) => content_op!(c, x, replace, streaming_replace),
        Op::Remove => c.remove(),
        Op::SetStr(t) => c.set_str(t.clone()),
        _ => unreachable!("text op"),
    }
}

type Log = Rc<RefCell<Vec<String>>>;

// ------------------------------------------------------------------------------------------------
// oracles (known findings are tagged with the site tags of known_findings.json)

#[derive(Clone, Copy, PartialEq, Eq, Debug)]
enum Fate {
    NoContent,
    Unclosed,
    Own,
    Implicit,
}

#[derive(Clone, Debug)]
struct Info {
    name: String, // lower case
    ns: u8,
    parent: Option<usize>,
    fate: Fate,
}

/// Independent pre-pass: the same input, one write, a single `*` observer that records for every
/// element (keyed by the start offset of its start tag) its namespace, its parent on the open-element
/// stack, and how it ended: by an end tag of its own name, by another end tag (implicitly), or never.
fn element_fates(input: &[u8]) -> Vec<(usize, Info)> {
    let infos: Rc<RefCell<Vec<(usize, Info)>>> = Rc::new(RefCell::new(vec![]));
    let stack: Rc<RefCell<Vec<usize>>> = Rc::new(RefCell::new(vec![]));
    {
        let (infos2, stack2) = (infos.clone(), stack.clone());
        let settings = Settings::new().append_element_content_handler((
            Cow::Owned("*".parse::<Selector>().unwrap()),
            ElementContentHandlers::default().element(move |el: &mut Element<'_, '_>| {
                let id = infos2.borrow().len();
                let chc = el.can_have_content();
                infos2.borrow_mut().push((
                    el.source_location().bytes().start,
                    Info {
                        name: el.tag_name(),
                        ns: ns_num_uri(el.namespace_uri()),
                        parent: stack2.borrow().last().copied(),
                        fate: if chc { Fate::Unclosed } else { Fate::NoContent },
                    },
                ));
                if chc {
                    stack2.borrow_mut().push(id);
                    let (infos3, stack3) = (infos2.clone(), stack2.clone());
                    let _ = el.on_end_tag(Box::new(move |et: &mut EndTag<'_>| {
                        let own = et.name() == infos3.borrow()[id].1.name;
                        infos3.borrow_mut()[id].1.fate = if own { Fate::Own } else { Fate::Implicit };
                        let mut st = stack3.borrow_mut();
                        if let Some(pos) = st.iter().rposition(|x| *x == id) {
                            st.truncate(pos);
                        }
                        Ok(())
                    }));
                }
                Ok(())
            }),
        ));
        let mut rw = HtmlRewriter::new(settings, |_: &[u8]| {});
        if rw.write(input).is_ok() {
            let _ = rw.end();
        }
    }
    let v = infos.borrow().clone();
    v
}

const SVG_IP: [&str; 3] = ["desc", "title", "foreignobject"];
const MATH_IP: [&str; 5] = ["mi", "mo", "mn", "ms", "mtext"];

struct Oracle {
    fates: std::collections::HashMap<usize, Info>,
    by_index: Vec<Info>,
    /// (start offset, tag) of elements that got end-tag-deferred edits
    deferred: RefCell<Vec<usize>>,
    flags: RefCell<Vec<String>>,
}

fn has_deferred(ops: &[Op]) -> bool {
    ops.iter().any(|o| match o {
        Op::After(_) | Op::Append(_) | Op::Replace(_) | Op::Remove | Op::RemoveKeep | Op::SetTagName(_) => true,
        Op::OnEndTag(e) => !e.is_empty(),
        _ => false,
    })
}

fn ns_num_uri(uri: &str) -> u8 {
    match uri {
        "http://www.w3.org/1999/xhtml" => 0,
        "http://www.w3.org/2000/svg" => 1,
        _ => 2,
    }
}

fn b01(b: bool) -> char {
    if b { '1' } else { '0' }
}

fn fail(f: bool) -> HRes {
    if f { Err("scripted failure".into()) } else { Ok(()) }
}

fn pick(s: &Scripts, k: usize) -> (&[Op], bool) {
    if s.is_empty() { (&[], false) } else { (&s[k % s.len()].0, s[k % s.len()].1) }
}

fn element_handler(h: usize, scripts: Scripts, log: Log, oracle: Rc<Oracle>) -> impl FnMut(&mut Element<'_, '_>) -> HRes {
    let cnt = Cell::new(0usize);
    move |el: &mut Element<'_, '_>| {
        let k = cnt.get();
        cnt.set(k + 1);
        let loc = el.source_location().bytes();
        // ---- oracles on what the handler reads (C16)
        for a in el.attributes() {
            if el.get_attribute(&a.name()).is_none() {
                oracle.flags.borrow_mut().push(format!(
                    " ||ORACLE:C16:F8-lookup-rejected-name get_attribute({:?}) = None although attributes() lists it (tag at {})",
                    a.name(),
                    loc.start
                ));
            }
        }
        if let Some(info) = oracle.fates.get(&loc.start) {
            if let Some(p) = info.parent.and_then(|p| oracle.by_index.get(p)) {
                let ns = ns_num_uri(el.namespace_uri());
                let name = el.tag_name();
                let ann = p.ns == 2
                    && name == "annotation-xml"
                    && !el.is_self_closing()
                    && el.get_attribute("encoding").is_some_and(|v| {
                        let v = v.to_ascii_lowercase();
                        v == "text/html" || v == "application/xhtml+xml"
                    });
                if ns == 0 && ((p.ns == 1 && SVG_IP.contains(&name.as_str())) || (p.ns == 2 && MATH_IP.contains(&name.as_str())) || ann) {
                    oracle.flags.borrow_mut().push(format!(
                        " ||ORACLE:C16:F9-integration-point-namespace <{}> at {} inside <{}> (ns {}): namespace_uri XHTML",
                        name, loc.start, p.name, p.ns
                    ));
                }
            }
        }
        if el.can_have_content() && has_deferred(pick(&scripts, k).0) {
            oracle.deferred.borrow_mut().push(loc.start);
        }
        let attrs: Vec<String> = el
            .attributes()
            .iter()
            .map(|a| format!("{}={}", hex_or_dash(a.name_preserve_case().as_bytes()), hex_or_dash(a.value().as_bytes())))
            .collect();
        log.borrow_mut().push(format!(
            "e{}@{}-{}:{}:{}:{}:{}{}{}",
            h,
            loc.start,
            loc.end,
            hex_or_dash(el.tag_name_preserve_case().as_bytes()),
            ns_num_uri(el.namespace_uri()),
            if attrs.is_empty() { "-".into() } else { attrs.join("+") },
            b01(el.is_self_closing()),
            b01(el.can_have_content()),
            b01(el.removed())
        ));
        let (ops, f) = pick(&scripts, k);
        let mut sub = 0usize;
        for op in ops {
            match op {
                Op::Before(c) => content_op!(el, c, before, streaming_before),
                Op::After(c) => content_op!(el, c, after, streaming_after),
                Op::Replace(c) => content_op!(el, c, replace, streaming_replace),
                Op::Prepend(c) => content_op!(el, c, prepend, streaming_prepend),
                Op::Append(c) => content_op!(el, c, append, streaming_append),
                Op::SetInner(c) => content_op!(el, c, set_inner_content, streaming_set_inner_content),
                Op::Remove => el.remove(),
                Op::RemoveKeep => el.remove_and_keep_content(),
                Op::SetTagName(n) => {
                    let _ = el.set_tag_name(n);
                }
                Op::SetAttr(n, v) => {
                    let _ = el.set_attribute(n, v);
                }
                Op::RemoveAttr(n) => el.remove_attribute(n),
                Op::StartTag(o) => apply_start_tag(el.start_tag(), o),
                Op::OnEndTag(eops) => {
                    let eops = eops.clone();
                    let log = log.clone();
                    let kk = sub;
                    let r = el.on_end_tag(Box::new(move |et: &mut EndTag<'_>| {
                        let loc = et.source_location().bytes();
                        log.borrow_mut().push(format!(
                            "E{}.{}@{}-{}:{}:{}",
                            h,
                            kk,
                            loc.start,
                            loc.end,
                            hex_or_dash(et.name_preserve_case().as_bytes()),
                            b01(et.removed())
                        ));
                        for o in &eops {
                            apply_end_tag(et, o);
                        }
                        Ok(())
                    }));
                    if r.is_ok() {
                        sub += 1;
                    }
                }
                _ => unreachable!("element op"),
            }
        }
        fail(f)
    }
}

fn comment_handler(h: usize, scripts: Scripts, log: Log) -> impl FnMut(&mut Comment<'_>) -> HRes {
    let cnt = Cell::new(0usize);
    move |c: &mut Comment<'_>| {
        let k = cnt.get();
        cnt.set(k + 1);
        let loc = c.source_location().bytes();
        log.borrow_mut().push(format!(
            "c{}@{}-{}:{}:{}",
            h,
            loc.start,
            loc.end,
            hex_or_dash(c.text().as_bytes()),
            b01(c.removed())
        ));
        let (ops, f) = pick(&scripts, k);
        for op in ops {
            apply_comment(c, op);
        }
        fail(f)
    }
}

fn text_handler(h: usize, scripts: Scripts, log: Log) -> impl FnMut(&mut TextChunk<'_>) -> HRes {
    let cnt = Cell::new(0usize);
    move |c: &mut TextChunk<'_>| {
        let k = cnt.get();
        cnt.set(k + 1);
        let loc = c.source_location().bytes();
        log.borrow_mut().push(format!(
            "t{}@{}-{}:{}:{}{}",
            h,
            loc.start,
            loc.end,
            hex_or_dash(c.as_str().as_bytes()),
            b01(c.last_in_text_node()),
            b01(c.removed())
        ));
        let (ops, f) = pick(&scripts, k);
        for op in ops {
            apply_text(c, op);
        }
        fail(f)
    }
}

fn doctype_handler(h: usize, scripts: Scripts, log: Log) -> impl FnMut(&mut Doctype<'_>) -> HRes {
    let cnt = Cell::new(0usize);
    move |d: &mut Doctype<'_>| {
        let k = cnt.get();
        cnt.set(k + 1);
        let loc = d.source_location().bytes();
        let o = |x: Option<String>| x.map_or("N".to_string(), |s| hex_or_dash(s.as_bytes()));
        log.borrow_mut().push(format!(
            "d{}@{}-{}:{}:{}:{}",
            h,
            loc.start,
            loc.end,
            o(d.name()),
            o(d.public_id()),
            o(d.system_id())
        ));
        let (ops, f) = pick(&scripts, k);
        for op in ops {
            if let Op::Remove = op {
                d.remove();
            }
        }
        fail(f)
    }
}

fn end_handler(h: usize, scripts: Scripts, log: Log) -> impl FnMut(&mut DocumentEnd<'_>) -> HRes {
    let cnt = Cell::new(0usize);
    move |e: &mut DocumentEnd<'_>| {
        let k = cnt.get();
        cnt.set(k + 1);
        log.borrow_mut().push(format!("z{}@0-0:-", h));
        let (ops, f) = pick(&scripts, k);
        for op in ops {
            if let Op::EndAppend(c, t) = op {
                e.append(c, ct(*t));
            }
        }
        fail(f)
    }
}

fn err_str(e: &RewritingError) -> &'static str {
    match e {
        RewritingError::MemoryLimitExceeded(_) => "mem",
        RewritingError::ParsingAmbiguity(_) => "amb",
        RewritingError::ContentHandlerError(_) => "hnd",
        _ => "other",
    }
}

pub fn run(line: &str) -> String {
    let f: Vec<&str> = line.split(' ').collect();
    if f.len() != 8 {
        return "bad-case".into();
    }
    let (Some(input), Some(cuts), Ok(g), Ok(maxmem), Some((sels, docs))) =
        (of_hex(f[0]), nat_list(f[1]), f[3].parse::<u8>(), f[4].parse::<usize>(), p_handlers(f[7]))
    else {
        return "bad-case".into();
    };
    let strict = f[2] == "1";
    let css: Vec<String> = if sels.is_empty() {
        vec![]
    } else {
        match f[6].split(',').map(p_str).collect::<Option<Vec<_>>>() {
            Some(c) => c,
            None => return "bad-case".into(),
        }
    };
    if css.len() != sels.len() {
        return "bad-case".into();
    }
    let log: Log = Rc::new(RefCell::new(Vec::new()));
    let out = Rc::new(RefCell::new(Vec::<u8>::new()));
    let fates = if sels.iter().any(|e| e.element.is_some()) { element_fates(&input) } else { vec![] };
    let oracle = Rc::new(Oracle {
        fates: fates.iter().cloned().collect(),
        by_index: fates.iter().map(|(_, i)| i.clone()).collect(),
        deferred: RefCell::new(vec![]),
        flags: RefCell::new(vec![]),
    });

    let mut mem = MemorySettings::new()
        .with_preallocated_parsing_buffer_size(0)
        .with_graceful_bail_out_on_memory_limit_exceeded(g & 2 != 0);
    if maxmem != 0 {
        mem = mem.with_max_allowed_memory_usage(maxmem);
    }
    let mut settings = Settings::new()
        .with_memory_settings(mem)
        .with_strict(strict)
        .with_graceful_bail_out_on_content_handler_error(g & 1 != 0);
    let n = sels.len();
    for (i, (e, text)) in sels.into_iter().zip(css.iter()).enumerate() {
        let Ok(selector) = text.parse::<Selector>() else {
            return format!("bad-selector {text}");
        };
        let mut h = ElementContentHandlers::default();
        if let Some(s) = e.element {
            h = h.element(element_handler(i, s, log.clone(), oracle.clone()));
        }
        if let Some(s) = e.comments {
            h = h.comments(comment_handler(i, s, log.clone()));
        }
        if let Some(s) = e.text {
            h = h.text(text_handler(i, s, log.clone()));
        }
        settings = settings.append_element_content_handler((Cow::Owned(selector), h));
    }
    for (j, e) in docs.into_iter().enumerate() {
        let i = n + j;
        let mut h = DocumentContentHandlers::default();
        if let Some(s) = e.doctype {
            h = h.doctype(doctype_handler(i, s, log.clone()));
        }
        if let Some(s) = e.comments {
            h = h.comments(comment_handler(i, s, log.clone()));
        }
        if let Some(s) = e.text {
            h = h.text(text_handler(i, s, log.clone()));
        }
        if let Some(s) = e.end {
            h = h.end(end_handler(i, s, log.clone()));
        }
        settings = settings.append_document_content_handler(h);
    }

    let mut results: Vec<String> = vec![];
    let mut outs: Vec<String> = vec![];
    {
        let out2 = out.clone();
        let mut rewriter = HtmlRewriter::new(settings, move |c: &[u8]| out2.borrow_mut().extend_from_slice(c));
        let mut failed = false;
        for chunk in split_at_cuts(&input, &cuts) {
            let before = out.borrow().len();
            let r = rewriter.write(chunk);
            outs.push(hex_or_dash(&out.borrow()[before..]));
            match r {
                Ok(()) => results.push("ok".into()),
                Err(e) => {
                    results.push(err_str(&e).into());
                    failed = true;
                    break;
                }
            }
        }
        if !failed {
            let before = out.borrow().len();
            let r = rewriter.end();
            outs.push(hex_or_dash(&out.borrow()[before..]));
            match r {
                Ok(()) => results.push("ok".into()),
                Err(e) => results.push(err_str(&e).into()),
            }
        }
    }
    let log = log.borrow();
    // ---- C07: edits deferred to the end tag of an element that never gets an end tag of its own
    let mut flags: Vec<String> = oracle.flags.borrow().clone();
    if results.iter().all(|r| r == "ok") {
        for off in oracle.deferred.borrow().iter() {
            match oracle.fates.get(off).map(|i| (i.fate, i.name.clone())) {
                Some((Fate::Implicit, name)) => flags.push(format!(
                    " ||ORACLE:C07:implicit-close <{name}> at {off} has end-tag-deferred edits but is closed by another element's end tag"
                )),
                Some((Fate::Unclosed, name)) => flags.push(format!(
                    " ||ORACLE:C07:unclosed-eof <{name}> at {off} has end-tag-deferred edits but is still open at the end of the document"
                )),
                _ => {}
            }
        }
    }
    flags.sort();
    flags.dedup();
    format!(
        "{} # {} # {}{}",
        results.join(";"),
        outs.join(";"),
        if log.is_empty() { "-".into() } else { log.join(";") },
        flags.join("")
    )
}
