//! Lane `metacs` (implementation only; C05 with C13): the optional `adjust_charset_on_meta_tag` setting registers an
//! internal `meta` element handler in front of the user's handlers (shifting every handler index). Scoped dispatch
//! must be unaffected: with the setting on and off the user's handlers receive the same invocations, and — when the
//! `<meta>` names the encoding the document already has, or the document is ASCII — the same bytes reach the sink.
//! case: <doc hex> <cuts|-> <selectors: hex,hex,…>   obs: `n_inv=<k> out=<len>`
use crate::util::*;
use lol_html::html_content::ContentType;
use lol_html::{HtmlRewriter, Settings};
use std::cell::RefCell;
use std::rc::Rc;

fn run_once(doc: &[u8], cuts: &[usize], sels: &[String], adjust: bool) -> Result<(Vec<String>, Vec<u8>), String> {
    let log = Rc::new(RefCell::new(Vec::<String>::new()));
    let out = Rc::new(RefCell::new(Vec::<u8>::new()));
    let mut settings = Settings::new().with_adjust_charset_on_meta_tag(adjust);
    for (i, s) in sels.iter().enumerate() {
        let (l1, l2, l3, l4) = (log.clone(), log.clone(), log.clone(), log.clone());
        let sel: lol_html::Selector = s.parse().map_err(|e| format!("selector {e}"))?;
        settings = settings.append_element_content_handler((
            std::borrow::Cow::Owned(sel),
            lol_html::ElementContentHandlers::default()
                .element(move |e: &mut lol_html::html_content::Element<'_, '_>| {
                    l1.borrow_mut().push(format!("e{i}:{}", e.tag_name()));
                    if i % 3 == 1 {
                        e.after(&format!("<!--a{i}-->"), ContentType::Html);
                    }
                    let l = l4.clone();
                    if i % 2 == 0 {
                        if let Some(h) = e.end_tag_handlers() {
                            h.push(Box::new(move |t| {
                                l.borrow_mut().push(format!("x{i}:{}", t.name()));
                                Ok(())
                            }));
                        }
                    }
                    Ok(())
                })
                .comments(move |c: &mut lol_html::html_content::Comment<'_>| {
                    l2.borrow_mut().push(format!("c{i}:{}", c.text()));
                    Ok(())
                })
                .text(move |t: &mut lol_html::html_content::TextChunk<'_>| {
                    if !t.as_str().is_empty() || t.last_in_text_node() {
                        l3.borrow_mut().push(format!("t{i}:{}:{}", t.as_str().len(), t.last_in_text_node() as u8));
                    }
                    Ok(())
                }),
        ));
    }
    let o = out.clone();
    let mut rw = HtmlRewriter::new(settings, move |c: &[u8]| o.borrow_mut().extend_from_slice(c));
    for ch in split_at_cuts(doc, cuts) {
        rw.write(ch).map_err(|e| format!("write {e}"))?;
    }
    rw.end().map_err(|e| format!("end {e}"))?;
    let l = log.borrow().clone();
    let b = out.borrow().clone();
    Ok((l, b))
}

pub fn run(line: &str) -> String {
    let f: Vec<&str> = line.split(' ').collect();
    if f.len() != 3 {
        return "bad-case".into();
    }
    let (Some(doc), Some(cuts)) = (of_hex(f[0]), nat_list(f[1])) else { return "bad-case".into() };
    let sels: Vec<String> = f[2].split(',').filter_map(|h| of_hex(h).and_then(|b| String::from_utf8(b).ok())).collect();
    let off = run_once(&doc, &cuts, &sels, false);
    let on = run_once(&doc, &cuts, &sels, true);
    match (off, on) {
        (Ok((l0, o0)), Ok((l1, o1))) => {
            let mut oracle = String::new();
            if l0 != l1 {
                let i = l0.iter().zip(l1.iter()).position(|(a, b)| a != b).unwrap_or(l0.len().min(l1.len()));
                oracle.push_str(&format!(
                    " ||ORACLE:C05:meta-charset-handler-shifts-dispatch invocation {i}: without {:?} with {:?}",
                    l0.get(i),
                    l1.get(i)
                ));
            }
            if o0 != o1 {
                oracle.push_str(" ||ORACLE:C05:meta-charset-changes-output sink bytes differ although the document is ASCII");
            }
            format!("n_inv={} out={}{oracle}", l0.len(), o0.len())
        }
        (a, b) => {
            let (ea, eb) = (a.err().unwrap_or_default(), b.err().unwrap_or_default());
            if ea == eb {
                format!("ERR {}", ea.replace(' ', "_"))
            } else {
                format!("ERR ||ORACLE:C05:meta-charset-changes-result without {ea:?} with {eb:?}")
            }
        }
    }
}
