//! Probe lane `nsprobe` (no Lean counterpart; used to reproduce the C03 simulator findings):
//! case = hex HTML; observation = what lol-html (non-strict, `*` element handler + text handler)
//! reports, `|`, what html5ever + RcDom build for the same bytes.
use crate::util::*;
use html5ever::tendril::TendrilSink;
use lol_html::{element, text, HtmlRewriter, Settings};
use markup5ever_rcdom::{Handle, NodeData, RcDom};
use std::cell::RefCell;
use std::rc::Rc;

fn walk(h: &Handle, out: &mut String) {
    match &h.data {
        NodeData::Element { name, .. } => {
            let ns = match &*name.ns {
                "http://www.w3.org/1999/xhtml" => "html",
                "http://www.w3.org/2000/svg" => "svg",
                "http://www.w3.org/1998/Math/MathML" => "mathml",
                _ => "?",
            };
            out.push_str(&format!("<{}:{}>", ns, name.local));
            for c in h.children.borrow().iter() {
                walk(c, out);
            }
            out.push_str("</>");
        }
        NodeData::Text { contents } => out.push_str(&format!("T({})", contents.borrow())),
        NodeData::Comment { contents } => out.push_str(&format!("C({})", contents)),
        _ => {
            for c in h.children.borrow().iter() {
                walk(c, out);
            }
        }
    }
}

pub fn run(line: &str) -> String {
    let mut it = line.split_whitespace();
    let (Some(mode), Some(hexs)) = (it.next(), it.next()) else { return "bad-case".into() };
    let Some(bytes) = of_hex(hexs) else { return "bad-case".into() };
    let Ok(html) = String::from_utf8(bytes) else { return "bad-case".into() };
    let log = Rc::new(RefCell::new(String::new()));
    let (l1, l2) = (log.clone(), log.clone());
    let h1 = element!("*", move |el| {
        let ns = match el.namespace_uri() {
            "http://www.w3.org/1999/xhtml" => "html",
            "http://www.w3.org/2000/svg" => "svg",
            "http://www.w3.org/1998/Math/MathML" => "mathml",
            _ => "?",
        };
        l1.borrow_mut().push_str(&format!("<{}:{}>", ns, el.tag_name()));
        Ok(())
    });
    let h2 = text!("*", move |t| {
        if !t.as_str().is_empty() {
            l2.borrow_mut().push_str(&format!("T({})", t.as_str()));
        }
        Ok(())
    });
    let settings = Settings::new()
        .append_element_content_handler(h1)
        .append_element_content_handler(h2)
        .with_strict(mode == "strict");
    let mut rw = HtmlRewriter::new(settings, |_: &[u8]| {});
    let res = rw.write(html.as_bytes()).and_then(|_| rw.end());
    let lol = match res {
        Ok(_) => log.borrow().clone(),
        Err(e) => format!("{} ERR {e:?}", log.borrow()),
    };
    let dom = html5ever::parse_document(RcDom::default(), Default::default())
        .from_utf8()
        .one(html.as_bytes());
    let mut tree = String::new();
    walk(&dom.document, &mut tree);
    format!("{lol} | {tree}")
}
