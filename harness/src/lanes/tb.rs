//! Lane `tb` (spec ⇄ html5ever): drives html5ever 0.39's *tree builder* directly with a token sequence
//! and prints, per token, the tokenizer feedback the tree builder returned, whether the adjusted
//! current node is outside the HTML namespace (CDATA sections allowed), and the stack of open elements
//! after the token. The Lean side (`Lane/Tb.lean`) prints the same from `Spec.TreeBuilder` with the
//! html5ever deviation flags (`Dev.h5`) switched on.
//!
//! case:  `<cfg> <tok> <tok> …`
//!   cfg   `s1` | `s0`                      scripting flag
//!   tok   `S:name[/][;e=h|x|o][;f=c|a|s|o][;t=h|o]`   start tag (`/` = self-closing; encoding / font / type attrs)
//!         `E:name`   `C:w|t|n` (whitespace / text / NUL)   `M` comment   `D:n|l|q` doctype   `Z` EOF
//! observation: one field per token: `<sw><cdata>:<stack>` with sw ∈ `-RWSP`, cdata ∈ `01`, stack =
//!   open elements bottom→top, `s~` / `m~` prefix for SVG / MathML; `~` for a token the tokenizer could
//!   not have produced (the feedback put it into a text state: everything up to the matching end tag,
//!   or up to EOF after PLAINTEXT, is character data) — both sides drop such tokens.
//!
//! The stack is read through `TreeSink::pop`, which `TokenSink::end` calls for every open element; the
//! tree builder is re-run on every prefix of the case to get it after every token.
use html5ever::interface::{ElemName, ElementFlags, NodeOrText, QuirksMode, TreeSink};
use html5ever::tendril::StrTendril;
use html5ever::tokenizer::states::RawKind;
use html5ever::tokenizer::{Doctype, Tag, TagKind, Token, TokenSink, TokenSinkResult};
use html5ever::tree_builder::{TreeBuilder, TreeBuilderOpts};
use html5ever::{Attribute, LocalName, Namespace, QualName, ns};
use std::borrow::Cow;
use std::cell::RefCell;
use std::rc::Rc;

#[derive(Debug)]
struct Node {
    name: QualName,
    ip: bool,
}

type Handle = Rc<Node>;

struct NameRef<'a>(&'a QualName);
impl<'a> std::fmt::Debug for NameRef<'a> {
    fn fmt(&self, f: &mut std::fmt::Formatter<'_>) -> std::fmt::Result {
        write!(f, "{:?}", self.0)
    }
}
impl<'a> ElemName for NameRef<'a> {
    fn ns(&self) -> &Namespace {
        &self.0.ns
    }
    fn local_name(&self) -> &LocalName {
        &self.0.local
    }
}

/// A DOM-less sink: elements are (name, integration-point flag); every tree mutation is a no-op.
struct StackSink {
    doc: Handle,
    popped: RefCell<Vec<String>>,
    recording: RefCell<bool>,
}

fn mk(name: QualName, ip: bool) -> Handle {
    Rc::new(Node { name, ip })
}

impl StackSink {
    fn new() -> Self {
        StackSink {
            doc: mk(QualName::new(None, ns!(), LocalName::from("#document")), false),
            popped: RefCell::new(vec![]),
            recording: RefCell::new(false),
        }
    }
}

fn show(n: &QualName) -> String {
    let local = n.local.to_ascii_lowercase();
    if n.ns == ns!(svg) {
        format!("s~{local}")
    } else if n.ns == ns!(mathml) {
        format!("m~{local}")
    } else {
        local.to_string()
    }
}

impl TreeSink for StackSink {
    type Handle = Handle;
    type Output = ();
    type ElemName<'a> = NameRef<'a>;

    fn finish(self) {}
    fn parse_error(&self, _msg: Cow<'static, str>) {}
    fn get_document(&self) -> Handle {
        self.doc.clone()
    }
    fn elem_name<'a>(&'a self, target: &'a Handle) -> NameRef<'a> {
        NameRef(&target.name)
    }
    fn create_element(&self, name: QualName, _attrs: Vec<Attribute>, flags: ElementFlags) -> Handle {
        mk(name, flags.mathml_annotation_xml_integration_point)
    }
    fn create_comment(&self, _text: StrTendril) -> Handle {
        mk(QualName::new(None, ns!(), LocalName::from("#comment")), false)
    }
    fn create_pi(&self, _target: StrTendril, _data: StrTendril) -> Handle {
        mk(QualName::new(None, ns!(), LocalName::from("#pi")), false)
    }
    fn append(&self, _parent: &Handle, _child: NodeOrText<Handle>) {}
    fn append_based_on_parent_node(&self, _e: &Handle, _p: &Handle, _child: NodeOrText<Handle>) {}
    fn append_doctype_to_document(&self, _n: StrTendril, _p: StrTendril, _s: StrTendril) {}
    fn pop(&self, node: &Handle) {
        if *self.recording.borrow() {
            self.popped.borrow_mut().push(show(&node.name));
        }
    }
    fn get_template_contents(&self, _target: &Handle) -> Handle {
        mk(QualName::new(None, ns!(), LocalName::from("#fragment")), false)
    }
    fn same_node(&self, x: &Handle, y: &Handle) -> bool {
        Rc::ptr_eq(x, y)
    }
    fn set_quirks_mode(&self, _mode: QuirksMode) {}
    fn append_before_sibling(&self, _sibling: &Handle, _new_node: NodeOrText<Handle>) {}
    fn add_attrs_if_missing(&self, _target: &Handle, _attrs: Vec<Attribute>) {}
    fn remove_from_parent(&self, _target: &Handle) {}
    fn reparent_children(&self, _node: &Handle, _new_parent: &Handle) {}
    fn is_mathml_annotation_xml_integration_point(&self, handle: &Handle) -> bool {
        handle.ip
    }
}

#[derive(Clone, Debug)]
enum Tok {
    Start { name: String, sc: bool, attrs: Vec<(String, String)> },
    End { name: String },
    Char(&'static str),
    Nul,
    Comment,
    Doctype(char),
    Eof,
}

fn parse_tok(s: &str) -> Option<Tok> {
    if s == "M" {
        return Some(Tok::Comment);
    }
    if s == "Z" {
        return Some(Tok::Eof);
    }
    let (k, rest) = s.split_once(':')?;
    match k {
        "S" => {
            let mut parts = rest.split(';');
            let mut name = parts.next()?.to_string();
            let sc = name.ends_with('/');
            if sc {
                name.pop();
            }
            let mut attrs = vec![];
            for p in parts {
                let (a, v) = p.split_once('=')?;
                match (a, v) {
                    ("e", "h") => attrs.push(("encoding".to_string(), "text/html".to_string())),
                    ("e", "x") => attrs.push(("encoding".to_string(), "application/xhtml+xml".to_string())),
                    ("e", "o") => attrs.push(("encoding".to_string(), "text/plain".to_string())),
                    ("f", "c") => attrs.push(("color".to_string(), "red".to_string())),
                    ("f", "a") => attrs.push(("face".to_string(), "x".to_string())),
                    ("f", "s") => attrs.push(("size".to_string(), "1".to_string())),
                    ("f", "o") => attrs.push(("id".to_string(), "x".to_string())),
                    ("t", "h") => attrs.push(("type".to_string(), "hidden".to_string())),
                    ("t", "o") => attrs.push(("type".to_string(), "text".to_string())),
                    _ => return None,
                }
            }
            Some(Tok::Start { name, sc, attrs })
        }
        "E" => Some(Tok::End { name: rest.to_string() }),
        "C" => match rest {
            "w" => Some(Tok::Char(" ")),
            "t" => Some(Tok::Char("x")),
            "n" => Some(Tok::Nul),
            _ => None,
        },
        "D" => rest.chars().next().map(Tok::Doctype),
        _ => None,
    }
}

fn to_token(t: &Tok) -> Token {
    match t {
        Tok::Start { name, sc, attrs } => Token::TagToken(Tag {
            kind: TagKind::StartTag,
            name: LocalName::from(name.as_str()),
            self_closing: *sc,
            attrs: attrs
                .iter()
                .map(|(n, v)| Attribute { name: QualName::new(None, ns!(), LocalName::from(n.as_str())), value: StrTendril::from(v.as_str()) })
                .collect(),
            had_duplicate_attributes: false,
        }),
        Tok::End { name } => Token::TagToken(Tag {
            kind: TagKind::EndTag,
            name: LocalName::from(name.as_str()),
            self_closing: false,
            attrs: vec![],
            had_duplicate_attributes: false,
        }),
        Tok::Char(s) => Token::CharacterTokens(StrTendril::from(*s)),
        Tok::Nul => Token::NullCharacterToken,
        Tok::Comment => Token::CommentToken(StrTendril::from("c")),
        Tok::Doctype(k) => Token::DoctypeToken(match k {
            'n' => Doctype { name: Some(StrTendril::from("html")), public_id: None, system_id: None, force_quirks: false },
            'l' => Doctype {
                name: Some(StrTendril::from("html")),
                public_id: Some(StrTendril::from("-//W3C//DTD XHTML 1.0 Transitional//EN")),
                system_id: Some(StrTendril::from("http://www.w3.org/TR/xhtml1/DTD/xhtml1-transitional.dtd")),
                force_quirks: false,
            },
            _ => Doctype { name: Some(StrTendril::from("foo")), public_id: None, system_id: None, force_quirks: false },
        }),
        Tok::Eof => Token::EOFToken,
    }
}

/// what the tokenizer is doing because of the tree builder's feedback
#[derive(Clone, PartialEq)]
enum TkState {
    Data,
    /// RCDATA / RAWTEXT / script data: only the end tag with this name gets through
    Until(String),
    Plaintext,
}

/// feed `toks[..=upto]`; returns (per-token feedback chars for all fed tokens, cdata flag after the last,
/// stack after the last)
fn run_prefix(scripting: bool, toks: &[Tok], upto: usize) -> (Vec<char>, bool, Vec<String>) {
    let tb = TreeBuilder::new(StackSink::new(), TreeBuilderOpts { scripting_enabled: scripting, ..Default::default() });
    let mut st = TkState::Data;
    let mut fbs = vec![];
    for t in &toks[..=upto] {
        let pass = match (&st, t) {
            (TkState::Data, _) => true,
            (_, Tok::Eof) => true,
            (TkState::Until(n), Tok::End { name }) => n == name,
            _ => false,
        };
        if !pass {
            fbs.push('~');
            continue;
        }
        if let (TkState::Until(_), Tok::End { .. }) = (&st, t) {
            st = TkState::Data;
        }
        if let Tok::Eof = t {
            st = TkState::Data;
        }
        let r = tb.process_token(to_token(t), 1);
        let c = match r {
            TokenSinkResult::Continue => '-',
            TokenSinkResult::Script(_) => '-',
            TokenSinkResult::Plaintext => 'P',
            TokenSinkResult::RawData(RawKind::Rcdata) => 'R',
            TokenSinkResult::RawData(RawKind::Rawtext) => 'W',
            TokenSinkResult::RawData(RawKind::ScriptData) => 'S',
            TokenSinkResult::RawData(_) => '?',
            TokenSinkResult::EncodingIndicator(_) => 'E',
        };
        match c {
            'R' | 'W' | 'S' => {
                if let Tok::Start { name, .. } = t {
                    st = TkState::Until(name.clone());
                }
            }
            'P' => st = TkState::Plaintext,
            _ => {}
        }
        fbs.push(c);
    }
    let cdata = tb.adjusted_current_node_present_but_not_in_html_namespace();
    *tb.sink.recording.borrow_mut() = true;
    tb.end();
    let mut stack = tb.sink.popped.take();
    stack.reverse();
    (fbs, cdata, stack)
}

pub fn run(line: &str) -> String {
    let mut it = line.split_whitespace();
    let scripting = match it.next() {
        Some("s1") => true,
        Some("s0") => false,
        _ => return "bad-case".into(),
    };
    let mut toks = vec![];
    for w in it {
        match parse_tok(w) {
            Some(t) => toks.push(t),
            None => return "bad-case".into(),
        }
    }
    let mut out: Vec<String> = vec![];
    for i in 0..toks.len() {
        let (fbs, cdata, stack) = run_prefix(scripting, &toks, i);
        let c = fbs[i];
        if c == '~' {
            out.push("~".into());
        } else {
            out.push(format!("{}{}:{}", c, if cdata { 1 } else { 0 }, stack.join(",")));
        }
    }
    out.join(" ")
}
