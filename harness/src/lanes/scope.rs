//! Lane `scope` (property C05): run the REAL `HtmlRewriter` with logging handlers on a document
//! rendered from a tag-event script and print the invocation log in the format of
//! `lean/LolHtml/Lane/Scope.lean` (see there for the case format).
//!
//! Besides the log, the lane (a) validates with a separate probe run that the rendered document is
//! tokenised as the script says (otherwise `BADSCRIPT …`), and (b) checks the log against an
//! independent reference scope model computed from the script (` ||ORACLE:C05:<tag> …`).
use lol_html::html_content::ContentType;
use lol_html::{
    DocumentContentHandlers, ElementContentHandlers, HtmlRewriter, Selector, Settings,
};
use std::borrow::Cow;
use std::cell::RefCell;
use std::rc::Rc;

use crate::util::*;

#[derive(Clone, Debug)]
struct SelCase {
    name: String,
    element: bool,
    comments: bool,
    text: bool,
    remove: bool,
    inner: bool,
    append: bool,
    k: usize,
    modulus: usize,
    rem: usize,
}

impl SelCase {
    fn acts_at(&self, ord: usize) -> bool {
        self.modulus != 0 && ord % self.modulus == self.rem
    }
}

#[derive(Clone, Debug)]
struct DocCase {
    doctype: bool,
    comments: bool,
    text: bool,
    end: bool,
}

#[derive(Clone, Debug, PartialEq)]
enum Ev {
    Start { name: String, foreign: bool, self_closing: bool },
    End { name: String },
    Text,
    Comment,
    Doctype,
}

#[derive(Clone, Debug, PartialEq)]
enum Kind {
    Doctype,
    Comment,
    Text,
    Element,
    EndTag,
    End,
}

#[derive(Clone, Debug)]
struct Entry {
    kind: Kind,
    hid: usize,
    k: usize,
    start_ord: usize,
    off: usize,
    len: usize,
    last: bool,
}

type Log = Rc<RefCell<Vec<Entry>>>;

fn parse_sel(s: &str) -> Option<SelCase> {
    let p: Vec<&str> = s.split(':').collect();
    if p.len() != 5 {
        return None;
    }
    let f = p[1];
    Some(SelCase {
        name: p[0].to_string(),
        element: f.contains('e'),
        comments: f.contains('c'),
        text: f.contains('t'),
        remove: f.contains('r'),
        inner: f.contains('i'),
        append: f.contains('m'),
        k: p[2].parse().ok()?,
        modulus: p[3].parse().ok()?,
        rem: p[4].parse().ok()?,
    })
}

fn parse_ev(t: &str) -> Option<Ev> {
    let (k, rest) = t.split_at(1);
    Some(match k {
        "t" if rest.is_empty() => Ev::Text,
        "c" if rest.is_empty() => Ev::Comment,
        "d" if rest.is_empty() => Ev::Doctype,
        "e" => Ev::End { name: rest.to_string() },
        "o" | "O" => {
            let self_closing = rest.ends_with('/');
            let name = rest.trim_end_matches('/').to_string();
            Ev::Start { name, foreign: k == "O", self_closing }
        }
        _ => return None,
    })
}

fn list_field(s: &str) -> Vec<&str> {
    if s == "-" { vec![] } else { s.split(',').collect() }
}

const VOID: &[&str] = &[
    "area", "base", "basefont", "bgsound", "br", "col", "embed", "hr", "img", "input", "keygen",
    "link", "meta", "param", "source", "track", "wbr",
];

/// Render the script; returns the bytes and the byte range of every event.
fn render(evs: &[Ev]) -> (Vec<u8>, Vec<(usize, usize)>) {
    let mut out = Vec::new();
    let mut ranges = Vec::new();
    for (i, e) in evs.iter().enumerate() {
        let start = out.len();
        match e {
            Ev::Start { name, self_closing, .. } => {
                out.extend_from_slice(
                    format!("<{}{}>", name, if *self_closing { "/" } else { "" }).as_bytes(),
                );
            }
            Ev::End { name } => out.extend_from_slice(format!("</{name}>").as_bytes()),
            Ev::Text => out.extend_from_slice(format!("x{i};").as_bytes()),
            Ev::Comment => out.extend_from_slice(format!("<!--c{i}-->").as_bytes()),
            Ev::Doctype => out.extend_from_slice(b"<!DOCTYPE html>"),
        }
        ranges.push((start, out.len()));
    }
    (out, ranges)
}

/// Event ordinal of a token from its source location. Empty text chunks (the `last_in_text_node`
/// marker) sit at the END of their text node.
fn ord_of(ranges: &[(usize, usize)], evs: &[Ev], e: &Entry) -> Option<usize> {
    if e.kind == Kind::End {
        return Some(evs.len());
    }
    if e.kind == Kind::Text && e.len == 0 {
        if let Some(i) = ranges
            .iter()
            .enumerate()
            .position(|(i, r)| r.1 == e.off && evs[i] == Ev::Text)
        {
            return Some(i);
        }
    }
    ranges.iter().position(|r| r.0 <= e.off && e.off < r.1)
}

fn push(log: &Log, kind: Kind, hid: usize, off: usize, len: usize, last: bool) {
    log.borrow_mut().push(Entry { kind, hid, k: 0, start_ord: 0, off, len, last });
}

fn run_rewriter(
    sels: &[SelCase],
    docs: &[DocCase],
    input: &[u8],
    cuts: &[usize],
    ranges: &[(usize, usize)],
    log: &Log,
) -> Result<(), String> {
    let mut settings = Settings::new().with_strict(false);
    for (hid, sc) in sels.iter().enumerate() {
        let sel: Selector = sc.name.parse().map_err(|e| format!("selector {e:?}"))?;
        let mut h = ElementContentHandlers::default();
        if sc.element {
            let l = log.clone();
            let sc2 = sc.clone();
            let ranges2 = ranges.to_vec();
            h = h.element(move |el: &mut lol_html::html_content::Element<'_, '_>| {
                let r = el.source_location().bytes();
                push(&l, Kind::Element, hid, r.start, r.end - r.start, false);
                let ord = ranges2.iter().position(|x| x.0 <= r.start && r.start < x.1);
                if let Some(ord) = ord {
                    if sc2.acts_at(ord) {
                        for k in 0..sc2.k {
                            let l2 = l.clone();
                            // `on_end_tag` fails on elements that cannot have content: ignored
                            let _ = el.on_end_tag(Box::new(
                                move |end: &mut lol_html::html_content::EndTag<'_>| {
                                    let r = end.source_location().bytes();
                                    l2.borrow_mut().push(Entry {
                                        kind: Kind::EndTag,
                                        hid,
                                        k,
                                        start_ord: ord,
                                        off: r.start,
                                        len: r.end - r.start,
                                        last: false,
                                    });
                                    Ok(())
                                },
                            ));
                        }
                        if sc2.append {
                            el.append("<!--m-->", ContentType::Html);
                        }
                        if sc2.inner {
                            el.set_inner_content("", ContentType::Text);
                        }
                        if sc2.remove {
                            el.remove();
                        }
                    }
                }
                Ok(())
            });
        }
        if sc.comments {
            let l = log.clone();
            h = h.comments(move |c: &mut lol_html::html_content::Comment<'_>| {
                let r = c.source_location().bytes();
                push(&l, Kind::Comment, hid, r.start, r.end - r.start, false);
                Ok(())
            });
        }
        if sc.text {
            let l = log.clone();
            h = h.text(move |t: &mut lol_html::html_content::TextChunk<'_>| {
                let r = t.source_location().bytes();
                push(&l, Kind::Text, hid, r.start, r.end - r.start, t.last_in_text_node());
                Ok(())
            });
        }
        settings = settings.append_element_content_handler((Cow::Owned(sel), h));
    }
    let n = sels.len();
    for (j, dc) in docs.iter().enumerate() {
        let hid = n + j;
        let mut h = DocumentContentHandlers::default();
        if dc.doctype {
            let l = log.clone();
            h = h.doctype(move |d: &mut lol_html::html_content::Doctype<'_>| {
                let r = d.source_location().bytes();
                push(&l, Kind::Doctype, hid, r.start, r.end - r.start, false);
                Ok(())
            });
        }
        if dc.comments {
            let l = log.clone();
            h = h.comments(move |c: &mut lol_html::html_content::Comment<'_>| {
                let r = c.source_location().bytes();
                push(&l, Kind::Comment, hid, r.start, r.end - r.start, false);
                Ok(())
            });
        }
        if dc.text {
            let l = log.clone();
            h = h.text(move |t: &mut lol_html::html_content::TextChunk<'_>| {
                let r = t.source_location().bytes();
                push(&l, Kind::Text, hid, r.start, r.end - r.start, t.last_in_text_node());
                Ok(())
            });
        }
        if dc.end {
            let l = log.clone();
            h = h.end(move |_e: &mut lol_html::html_content::DocumentEnd<'_>| {
                push(&l, Kind::End, hid, 0, 0, false);
                Ok(())
            });
        }
        settings = settings.append_document_content_handler(h);
    }
    let mut rw = HtmlRewriter::new(settings, |_c: &[u8]| {});
    for chunk in split_at_cuts(input, cuts) {
        rw.write(chunk).map_err(|e| format!("write {e:?}"))?;
    }
    rw.end().map_err(|e| format!("end {e:?}"))?;
    Ok(())
}

/// Probe run: is the rendered document tokenised as the script says?
fn probe(evs: &[Ev], input: &[u8], ranges: &[(usize, usize)]) -> Result<(), String> {
    #[derive(Debug, PartialEq)]
    enum P {
        Start(usize, bool, bool, bool), // ord, foreign, self-closing syntax, can_have_content
        Text(usize),
        Comment(usize),
        Doctype(usize),
    }
    let seen: Rc<RefCell<Vec<(char, usize, bool, bool, bool)>>> = Rc::new(RefCell::new(vec![]));
    let s1 = seen.clone();
    let s2 = seen.clone();
    let s3 = seen.clone();
    let s4 = seen.clone();
    let sel: Selector = "*".parse().unwrap();
    let settings = Settings::new()
        .with_strict(false)
        .append_element_content_handler((
            Cow::Owned(sel),
            ElementContentHandlers::default().element(
                move |el: &mut lol_html::html_content::Element<'_, '_>| {
                    let foreign = el.namespace_uri() != "http://www.w3.org/1999/xhtml";
                    s1.borrow_mut().push((
                        'E',
                        el.source_location().bytes().start,
                        foreign,
                        el.is_self_closing(),
                        el.can_have_content(),
                    ));
                    Ok(())
                },
            ),
        ))
        .append_document_content_handler(
            DocumentContentHandlers::default()
                .doctype(move |d: &mut lol_html::html_content::Doctype<'_>| {
                    s2.borrow_mut().push(('D', d.source_location().bytes().start, false, false, false));
                    Ok(())
                })
                .comments(move |c: &mut lol_html::html_content::Comment<'_>| {
                    s3.borrow_mut().push(('C', c.source_location().bytes().start, false, false, false));
                    Ok(())
                })
                .text(move |t: &mut lol_html::html_content::TextChunk<'_>| {
                    let r = t.source_location().bytes();
                    if r.end > r.start {
                        s4.borrow_mut().push(('T', r.start, false, false, false));
                    }
                    Ok(())
                }),
        );
    let mut rw = HtmlRewriter::new(settings, |_c: &[u8]| {});
    rw.write(input).map_err(|e| format!("probe write {e:?}"))?;
    rw.end().map_err(|e| format!("probe end {e:?}"))?;
    let mut got = vec![];
    for (k, off, foreign, sc, chc) in seen.borrow().iter() {
        // tokens must START exactly at an event start
        let Some(ord) = ranges.iter().position(|r| r.0 == *off) else {
            return Err(format!("token {k} at {off} not at an event start"));
        };
        let p = match k {
            'E' => P::Start(ord, *foreign, *sc, *chc),
            'T' => P::Text(ord),
            'C' => P::Comment(ord),
            _ => P::Doctype(ord),
        };
        if got.last() != Some(&p) {
            got.push(p);
        }
    }
    let mut want = vec![];
    for (i, e) in evs.iter().enumerate() {
        match e {
            Ev::Start { name, foreign, self_closing } => {
                let chc = if *foreign { !*self_closing } else { !VOID.contains(&name.as_str()) };
                want.push(P::Start(i, *foreign, *self_closing, chc));
            }
            Ev::End { .. } => {}
            Ev::Text => want.push(P::Text(i)),
            Ev::Comment => want.push(P::Comment(i)),
            Ev::Doctype => want.push(P::Doctype(i)),
        }
    }
    if got != want {
        let i = got.iter().zip(want.iter()).position(|(a, b)| a != b).unwrap_or(got.len().min(want.len()));
        return Err(format!("token {} got {:?} want {:?}", i, got.get(i), want.get(i)));
    }
    Ok(())
}

/// One canonical log entry: (kind char, ord, hid, k, start_ord).
type Canon = (char, usize, usize, usize, usize);

fn show(c: &Canon) -> String {
    match c.0 {
        'X' => format!("X{}.{}.{}@{}", c.1, c.2, c.3, c.4),
        ch => format!("{}{}.{}", ch, c.1, c.2),
    }
}

/// Independent reference: which handlers must run, per event, from the script alone.
fn reference(sels: &[SelCase], docs: &[DocCase], evs: &[Ev]) -> Vec<Canon> {
    struct Open {
        name: String,
        matched: Vec<usize>,
        ord: usize,
        end_handlers: Vec<(usize, usize)>,
    }
    let n = sels.len();
    let mut open: Vec<Open> = vec![];
    let mut out = vec![];
    for (ord, e) in evs.iter().enumerate() {
        match e {
            Ev::Start { name, foreign, self_closing } => {
                let matched: Vec<usize> = sels
                    .iter()
                    .enumerate()
                    .filter(|(_, s)| s.name == "*" || &s.name == name)
                    .map(|(i, _)| i)
                    .collect();
                let with_content =
                    if *foreign { !*self_closing } else { !VOID.contains(&name.as_str()) };
                let mut end_handlers = vec![];
                for &i in &matched {
                    if sels[i].element {
                        out.push(('E', ord, i, 0, 0));
                        if with_content && sels[i].acts_at(ord) {
                            for k in 0..sels[i].k {
                                end_handlers.push((i, k));
                            }
                        }
                    }
                }
                if with_content {
                    open.push(Open { name: name.clone(), matched, ord, end_handlers });
                }
            }
            Ev::End { name } => {
                if let Some(pos) = open.iter().rposition(|o| &o.name == name) {
                    let popped: Vec<Open> = open.drain(pos..).collect();
                    for o in popped.iter().rev() {
                        for (h, k) in &o.end_handlers {
                            out.push(('X', ord, *h, *k, o.ord));
                        }
                    }
                }
            }
            Ev::Text | Ev::Comment => {
                let is_text = *e == Ev::Text;
                for (i, s) in sels.iter().enumerate() {
                    let has = if is_text { s.text } else { s.comments };
                    if has && open.iter().any(|o| o.matched.contains(&i)) {
                        out.push((if is_text { 'T' } else { 'C' }, ord, i, 0, 0));
                    }
                }
                for (j, d) in docs.iter().enumerate() {
                    if if is_text { d.text } else { d.comments } {
                        out.push((if is_text { 'T' } else { 'C' }, ord, n + j, 0, 0));
                    }
                }
            }
            Ev::Doctype => {
                for (j, d) in docs.iter().enumerate() {
                    if d.doctype {
                        out.push(('D', ord, n + j, 0, 0));
                    }
                }
            }
        }
    }
    for (j, d) in docs.iter().enumerate().rev() {
        if d.end {
            out.push(('F', evs.len(), n + j, 0, 0));
        }
    }
    out
}

pub fn run(line: &str) -> String {
    let f: Vec<&str> = line.split_whitespace().collect();
    if f.len() != 4 {
        return "bad-case".into();
    }
    let Some(sels) = list_field(f[0]).into_iter().map(parse_sel).collect::<Option<Vec<_>>>() else {
        return "bad-case".into();
    };
    let docs: Vec<DocCase> = list_field(f[1])
        .into_iter()
        .map(|s| DocCase {
            doctype: s.contains('d'),
            comments: s.contains('c'),
            text: s.contains('t'),
            end: s.contains('e'),
        })
        .collect();
    let Some(evs) = list_field(f[2]).into_iter().map(parse_ev).collect::<Option<Vec<_>>>() else {
        return "bad-case".into();
    };
    let Some(cuts) = nat_list(f[3]) else {
        return "bad-case".into();
    };
    let (input, ranges) = render(&evs);
    if let Err(e) = probe(&evs, &input, &ranges) {
        return format!("BADSCRIPT {e}");
    }
    let log: Log = Rc::new(RefCell::new(vec![]));
    if let Err(e) = run_rewriter(&sels, &docs, &input, &cuts, &ranges, &log) {
        return format!("ERROR {e}");
    }
    let log = log.borrow();
    let mut oracle: Vec<String> = vec![];

    // canonicalise: map to ordinals, collapse the chunks of one text node
    let mut canon: Vec<Canon> = vec![];
    let mut i = 0;
    while i < log.len() {
        let e = &log[i];
        let Some(ord) = ord_of(&ranges, &evs, e) else {
            return format!("ERROR unmapped-offset {:?}", e);
        };
        if e.kind != Kind::Text {
            let ch = match e.kind {
                Kind::Doctype => 'D',
                Kind::Comment => 'C',
                Kind::Element => 'E',
                Kind::EndTag => 'X',
                Kind::End => 'F',
                Kind::Text => unreachable!(),
            };
            canon.push((ch, ord, e.hid, e.k, e.start_ord));
            i += 1;
            continue;
        }
        // all consecutive text entries of this text node, grouped into chunks
        let mut chunks: Vec<((usize, usize, bool), Vec<usize>)> = vec![];
        while i < log.len()
            && log[i].kind == Kind::Text
            && ord_of(&ranges, &evs, &log[i]) == Some(ord)
        {
            let key = (log[i].off, log[i].len, log[i].last);
            match chunks.last_mut() {
                Some((k, hs)) if *k == key && !hs.contains(&log[i].hid) => hs.push(log[i].hid),
                _ => chunks.push((key, vec![log[i].hid])),
            }
            i += 1;
        }
        let first = chunks[0].1.clone();
        if chunks.iter().any(|c| c.1 != first) {
            oracle.push(format!("C05:text-chunk-handlers-differ ord={ord} {:?}", chunks));
        }
        let lasts = chunks.iter().filter(|c| c.0.2).count();
        if lasts != 1 || !chunks.last().unwrap().0.2 {
            oracle.push(format!("C05:text-last-marker ord={ord} {:?}", chunks));
        }
        // the chunks must tile the text node
        let covered: usize = chunks.iter().map(|c| c.0.1).sum();
        if covered != ranges[ord].1 - ranges[ord].0 || chunks[0].0.0 != ranges[ord].0 {
            oracle.push(format!("C05:text-coverage ord={ord} {:?}", chunks));
        }
        for h in first {
            canon.push(('T', ord, h, 0, 0));
        }
    }

    let want = reference(&sels, &docs, &evs);
    if canon != want {
        let p = canon.iter().zip(want.iter()).position(|(a, b)| a != b).unwrap_or(canon.len().min(want.len()));
        let tag = match (canon.get(p), want.get(p)) {
            (Some(a), Some(b)) if a.0 == b.0 && a.1 == b.1 => "order-or-set",
            (Some(a), _) if a.0 == 'X' => "end-tag",
            (_, Some(b)) if b.0 == 'X' => "end-tag",
            (Some(a), _) if a.0 == 'F' => "end",
            _ => "scope",
        };
        oracle.push(format!(
            "C05:{tag} at#{p} got={} want={}",
            canon.get(p).map(show).unwrap_or("-".into()),
            want.get(p).map(show).unwrap_or("-".into())
        ));
    }

    let mut s = if canon.is_empty() {
        "-".to_string()
    } else {
        canon.iter().map(show).collect::<Vec<_>>().join(",")
    };
    for o in oracle {
        s.push_str(" ||ORACLE:");
        s.push_str(&o);
    }
    s
}
