//! Lane `selpure` (property C04, pure leaf functions of the selector engine).
//!
//! `NthChild`, `AttributeMatcher` and the compiler closures are `pub(crate)` in lol-html, so every
//! case is driven through the public API: a rewriter with one selector and a generated document
//! whose probe element carries the index / the attribute value; the observation is whether the
//! element handler fired on the probe. Protocol: see lean/LolHtml/Lane/SelPure.lean.
//!
//! Oracle: an independent i64 computation of `∃ n ≥ 0. a·n + b = i` and naive CSS definitions of the
//! attribute operators, both written here; disagreements are flagged ` ||ORACLE:C04:<tag> …`.
use crate::util::*;
use lol_html::html_content::Element;
use lol_html::{HtmlRewriter, Selector, Settings, element};
use std::cell::RefCell;
use std::rc::Rc;

const MAX_INDEX: i64 = 4096;

/// Runs `doc` through a rewriter with the given selectors; returns, per selector, the values of the
/// attribute `data-probe` of the elements its handler fired on.
fn run_selectors(selectors: &[String], doc: &[u8]) -> Result<Vec<Vec<String>>, String> {
    for s in selectors {
        if let Err(e) = s.parse::<Selector>() {
            return Err(format!("selector-error {e:?}"));
        }
    }
    let hits: Vec<Rc<RefCell<Vec<String>>>> = selectors.iter().map(|_| Rc::default()).collect();
    let mut settings = Settings::new();
    for (s, h) in selectors.iter().zip(&hits) {
        let h = h.clone();
        settings = settings.append_element_content_handler(element!(s, move |el: &mut Element| {
            h.borrow_mut()
                .push(el.get_attribute("data-probe").unwrap_or_default());
            Ok(())
        }));
    }
    let mut rw = HtmlRewriter::new(settings, |_: &[u8]| {});
    rw.write(doc).map_err(|e| format!("rewrite-error {e:?}"))?;
    rw.end().map_err(|e| format!("rewrite-error {e:?}"))?;
    Ok(hits.iter().map(|h| h.borrow().clone()).collect())
}

/// CSS escape of arbitrary text as an identifier / inside a string: every char as `\hex `.
fn css_escape(s: &str) -> String {
    s.chars().map(|c| format!("\\{:x} ", c as u32)).collect()
}

fn an_plus_b(a: i32, b: i32) -> String {
    // `An+B` with explicit signs; cssparser accepts `+` only in front of B (and of a bare `n`).
    if b < 0 {
        format!("{a}n{b}")
    } else {
        format!("{a}n+{b}")
    }
}

/// Reference: `∃ n ∈ ℕ. a·n + b = i` over i64 (no overflow: |a·n| is never computed).
fn nth_ref(a: i64, b: i64, i: i64) -> bool {
    let d = i - b;
    if a == 0 {
        d == 0
    } else {
        d % a == 0 && d / a >= 0
    }
}

fn run_nth(a: i32, b: i32, i: i64) -> String {
    let sel_child = format!("x:nth-child({})", an_plus_b(a, b));
    let sel_type = format!("x:nth-of-type({})", an_plus_b(a, b));
    let mut doc = Vec::with_capacity(32 * i as usize);
    doc.extend_from_slice(b"<r>");
    for j in 1..=i {
        doc.extend_from_slice(format!("<x data-probe={j}></x>").as_bytes());
    }
    doc.extend_from_slice(b"</r>");
    let hits = match run_selectors(&[sel_child.clone(), sel_type], &doc) {
        Ok(h) => h,
        Err(e) => return e,
    };
    let child: Vec<i64> = hits[0].iter().map(|s| s.parse().unwrap()).collect();
    let typed: Vec<i64> = hits[1].iter().map(|s| s.parse().unwrap()).collect();
    let bit = child.contains(&i) as u8;
    let mut out = format!("{bit} {}", child.len());
    let expected: Vec<i64> = (1..=i).filter(|&j| nth_ref(a as i64, b as i64, j)).collect();
    if child != expected {
        let j = (1..=i)
            .find(|j| child.contains(j) != expected.contains(j))
            .unwrap();
        let kind = if child.contains(&j) { "false-positive" } else { "false-negative" };
        // site tag: the (repaired, 614f5b5) wrap-around zone `j - b >= 2^31` vs anything else
        let tag = if j - b as i64 >= 1 << 31 { "nth-offset-wrap" } else { "nth" };
        out.push_str(&format!(
            " ||ORACLE:C04:{tag} {kind}: `{sel_child}` on child {j}: handler {} but a*n+b=i {}",
            if child.contains(&j) { "fired" } else { "did not fire" },
            if expected.contains(&j) { "has a solution n>=0" } else { "has no solution n>=0" }
        ));
    } else if typed != child {
        out.push_str(" ||ORACLE:C04:nth-type-vs-child nth-of-type differs from nth-child on same-type siblings");
    }
    out
}

fn is_ws(b: u8) -> bool {
    matches!(b, b' ' | b'\t' | b'\n' | b'\r' | 0x0c)
}

fn ci_eq(ci: bool, a: &[u8], b: &[u8]) -> bool {
    if ci { a.eq_ignore_ascii_case(b) } else { a == b }
}

/// Naive CSS Selectors L4 §6.1/6.2 definitions (independent of the implementation's structure).
fn attr_ref(op: &str, ci: bool, v: &[u8], n: &[u8]) -> bool {
    match op {
        "eq" => ci_eq(ci, v, n),
        // whitespace-separated list of words, one of which is exactly `n`;
        // never matches if `n` is empty or contains whitespace
        "inc" => {
            !n.is_empty()
                && !n.iter().any(|&b| is_ws(b))
                && v.split(|&b| is_ws(b)).filter(|w| !w.is_empty()).any(|w| ci_eq(ci, w, n))
        }
        // exactly `n`, or begins with `n` immediately followed by `-`
        "dash" => {
            ci_eq(ci, v, n)
                || (v.len() > n.len() && v[n.len()] == b'-' && ci_eq(ci, &v[..n.len()], n))
        }
        // empty `n` never matches
        "pre" => !n.is_empty() && v.len() >= n.len() && ci_eq(ci, &v[..n.len()], n),
        "suf" => !n.is_empty() && v.len() >= n.len() && ci_eq(ci, &v[v.len() - n.len()..], n),
        "sub" => !n.is_empty() && v.len() >= n.len() && v.windows(n.len()).any(|w| ci_eq(ci, w, n)),
        _ => unreachable!(),
    }
}

fn quote_attr_value(v: &[u8]) -> Option<Vec<u8>> {
    let q = if !v.contains(&b'"') {
        b'"'
    } else if !v.contains(&b'\'') {
        b'\''
    } else {
        return None;
    };
    let mut out = vec![q];
    out.extend_from_slice(v);
    out.push(q);
    Some(out)
}

fn selector_text(b: &[u8]) -> Option<&str> {
    if b.contains(&0) {
        return None;
    }
    std::str::from_utf8(b).ok()
}

fn wrap_ns(ns: &str, tag: Vec<u8>) -> Option<Vec<u8>> {
    let mut doc = Vec::new();
    match ns {
        "html" => {
            doc.extend_from_slice(b"<r>");
            doc.extend_from_slice(&tag);
            doc.extend_from_slice(b"</x></r>");
        }
        "svg" => {
            doc.extend_from_slice(b"<svg>");
            doc.extend_from_slice(&tag);
            doc.extend_from_slice(b"</x></svg>");
        }
        _ => return None,
    }
    Some(doc)
}

fn run_attr(op: &str, flag: &str, ns: &str, value: &[u8], needle: &[u8]) -> String {
    let css_op = match op {
        "eq" => "=",
        "inc" => "~=",
        "dash" => "|=",
        "pre" => "^=",
        "suf" => "$=",
        "sub" => "*=",
        _ => return "bad-case".into(),
    };
    let (name, css_flag) = match flag {
        "s" => ("data-k", " s"),
        "i" => ("data-k", " i"),
        "d" => ("data-k", ""),
        "h" => ("type", ""),
        _ => return "bad-case".into(),
    };
    let (Some(needle_s), Some(quoted)) = (selector_text(needle), quote_attr_value(value)) else {
        return "bad-case".into();
    };
    let selector = format!("x[{name}{css_op}\"{}\"{css_flag}]", css_escape(needle_s));
    let mut tag = format!("<x data-probe=p {name}=").into_bytes();
    tag.extend_from_slice(&quoted);
    tag.push(b'>');
    let Some(doc) = wrap_ns(ns, tag) else {
        return "bad-case".into();
    };
    let hits = match run_selectors(&[selector.clone()], &doc) {
        Ok(h) => h,
        Err(e) => return e,
    };
    let fired = !hits[0].is_empty();
    let ci = match flag {
        "i" => true,
        "h" => ns == "html",
        _ => false,
    };
    let expected = attr_ref(op, ci, value, needle);
    let mut out = format!("{}", fired as u8);
    if fired != expected {
        let tag = if needle.is_empty() { format!("attr-{op}-empty-operand") } else { format!("attr-{op}") };
        out.push_str(&format!(
            " ||ORACLE:C04:{tag} `{selector}` on {}: handler {} but CSS says {}",
            String::from_utf8_lossy(&doc).escape_debug(),
            if fired { "fired" } else { "did not fire" },
            if expected { "match" } else { "no match" }
        ));
    }
    out
}

fn ok_attr_name(n: &[u8]) -> bool {
    !n.is_empty()
        && n.iter().all(|&b| {
            !matches!(b, 9 | 10 | 12 | 13 | 32 | b'/' | b'>' | b'=' | 0 | b'"' | b'\'' | b'<')
        })
}

fn parse_attrs(s: &str) -> Option<Vec<(Vec<u8>, Vec<u8>)>> {
    if s == "-" {
        return Some(vec![]);
    }
    s.split(',')
        .map(|item| {
            let mut it = item.split(':');
            let (n, v) = (it.next()?, it.next()?);
            if it.next().is_some() {
                return None;
            }
            Some((of_hex(n)?, of_hex(v)?))
        })
        .collect()
}

fn run_el(kind: &str, ns: &str, key: &[u8], attrs: &[(Vec<u8>, Vec<u8>)]) -> String {
    let Some(key_s) = selector_text(key) else {
        return "bad-case".into();
    };
    if key.is_empty() {
        return "bad-case".into();
    }
    // `data-probe` is put last so that it never shadows a generated attribute
    let mut tag = b"<x".to_vec();
    for (n, v) in attrs {
        let (true, Some(q)) = (ok_attr_name(n), quote_attr_value(v)) else {
            return "bad-case".into();
        };
        tag.push(b' ');
        tag.extend_from_slice(n);
        tag.push(b'=');
        tag.extend_from_slice(&q);
    }
    tag.extend_from_slice(b" data-probe=p>");
    let selector = match kind {
        "id" => format!("x#{}", css_escape(key_s)),
        "class" => format!("x.{}", css_escape(key_s)),
        "has" => format!("x[{}]", css_escape(key_s)),
        _ => return "bad-case".into(),
    };
    let Some(doc) = wrap_ns(ns, tag) else {
        return "bad-case".into();
    };
    let hits = match run_selectors(&[selector.clone()], &doc) {
        Ok(h) => h,
        Err(e) => return e,
    };
    let fired = !hits[0].is_empty();
    // reference: first attribute with that name (ASCII case-insensitively) decides
    let first = |name: &[u8]| attrs.iter().find(|(n, _)| n.eq_ignore_ascii_case(name));
    let expected = match kind {
        "id" => first(b"id").is_some_and(|(_, v)| v == key),
        "class" => first(b"class").is_some_and(|(_, v)| {
            v.split(|&b| is_ws(b)).filter(|w| !w.is_empty()).any(|w| w == key)
        }),
        _ => first(key).is_some(),
    };
    let mut out = format!("{}", fired as u8);
    if fired != expected {
        out.push_str(&format!(
            " ||ORACLE:C04:el-{kind} `{selector}` on {}: handler {} but CSS says {}",
            String::from_utf8_lossy(&doc).escape_debug(),
            if fired { "fired" } else { "did not fire" },
            if expected { "match" } else { "no match" }
        ));
    }
    out
}

/// https://html.spec.whatwg.org/multipage/semantics-other.html#case-sensitivity-of-selectors
const HTML_CI_ATTRS: &[&str] = &[
    "accept", "accept-charset", "align", "alink", "axis", "bgcolor", "charset", "checked", "clear",
    "codetype", "color", "compact", "declare", "defer", "dir", "direction", "disabled", "enctype",
    "face", "frame", "hreflang", "http-equiv", "lang", "language", "link", "media", "method",
    "multiple", "nohref", "noresize", "noshade", "nowrap", "readonly", "rel", "rev", "rules",
    "scope", "scrolling", "selected", "shape", "target", "text", "type", "valign", "valuetype",
    "vlink",
];

fn run_elop(
    op: &str,
    flag: &str,
    ns: &str,
    name: &[u8],
    needle: &[u8],
    attrs: &[(Vec<u8>, Vec<u8>)],
) -> String {
    let css_op = match op {
        "eq" => "=",
        "inc" => "~=",
        "dash" => "|=",
        "pre" => "^=",
        "suf" => "$=",
        "sub" => "*=",
        _ => return "bad-case".into(),
    };
    let css_flag = match flag {
        "s" => " s",
        "i" => " i",
        "n" => "",
        _ => return "bad-case".into(),
    };
    let (Some(name_s), Some(needle_s)) = (selector_text(name), selector_text(needle)) else {
        return "bad-case".into();
    };
    if name.is_empty() {
        return "bad-case".into();
    }
    let mut tag = b"<x".to_vec();
    for (n, v) in attrs {
        let (true, Some(q)) = (ok_attr_name(n), quote_attr_value(v)) else {
            return "bad-case".into();
        };
        tag.push(b' ');
        tag.extend_from_slice(n);
        tag.push(b'=');
        tag.extend_from_slice(&q);
    }
    tag.extend_from_slice(b" data-probe=p>");
    let selector = format!(
        "x[{}{css_op}\"{}\"{css_flag}]",
        css_escape(name_s),
        css_escape(needle_s)
    );
    let Some(doc) = wrap_ns(ns, tag) else {
        return "bad-case".into();
    };
    let hits = match run_selectors(&[selector.clone()], &doc) {
        Ok(h) => h,
        Err(e) => return e,
    };
    let fired = !hits[0].is_empty();
    let ci = match flag {
        "i" => true,
        "s" => false,
        _ => ns == "html" && HTML_CI_ATTRS.contains(&name_s.to_ascii_lowercase().as_str()),
    };
    let expected = attrs
        .iter()
        .find(|(n, _)| n.eq_ignore_ascii_case(name))
        .is_some_and(|(_, v)| attr_ref(op, ci, v, needle));
    let mut out = format!("{}", fired as u8);
    if fired != expected {
        let tag = if needle.is_empty() { format!("attr-{op}-empty-operand") } else { format!("elop-{op}") };
        out.push_str(&format!(
            " ||ORACLE:C04:{tag} `{selector}` on {}: handler {} but CSS says {}",
            String::from_utf8_lossy(&doc).escape_debug(),
            if fired { "fired" } else { "did not fire" },
            if expected { "match" } else { "no match" }
        ));
    }
    out
}

pub fn run(line: &str) -> String {
    let f: Vec<&str> = line.split(' ').filter(|s| !s.is_empty()).collect();
    match f.as_slice() {
        ["nth", a, b, i] => {
            let (Ok(a), Ok(b), Ok(i)) = (a.parse::<i32>(), b.parse::<i32>(), i.parse::<i32>()) else {
                return "bad-case".into();
            };
            if (i as i64) < 1 || (i as i64) > MAX_INDEX {
                return "bad-case".into();
            }
            run_nth(a, b, i as i64)
        }
        ["attr", op, flag, ns, value, needle] => {
            let (Some(v), Some(n)) = (of_hex(value), of_hex(needle)) else {
                return "bad-case".into();
            };
            run_attr(op, flag, ns, &v, &n)
        }
        ["el", kind, ns, key, attrs] => {
            let (Some(k), Some(a)) = (of_hex(key), parse_attrs(attrs)) else {
                return "bad-case".into();
            };
            run_el(kind, ns, &k, &a)
        }
        ["elop", op, flag, ns, name, needle, attrs] => {
            let (Some(nm), Some(nd), Some(a)) = (of_hex(name), of_hex(needle), parse_attrs(attrs)) else {
                return "bad-case".into();
            };
            run_elop(op, flag, ns, &nm, &nd, &a)
        }
        _ => "bad-case".into(),
    }
}

#[cfg(test)]
mod tests {
    use super::run_selectors;

    /// Regression of the two findings of docs/pkg-selpure.md (repaired in /repo by 614f5b5 and
    /// 11ef1d1) with literally spelled selectors: `cargo test --offline -- --nocapture replay`.
    #[test]
    fn replay_findings_with_literal_selectors() {
        let fired = |sel: &str, doc: &str| -> usize {
            run_selectors(&[sel.to_string()], doc.as_bytes()).unwrap()[0].len()
        };
        let doc = "<r><x data-probe=1></x><x data-probe=2></x></r>";
        for (sel, css) in [
            ("x:nth-child(n-2147483648)", 2),
            ("x:nth-child(-n-2147483647)", 0),
            ("x:nth-of-type(n-2147483648)", 2),
            ("x:nth-of-type(-n-2147483647)", 0),
            ("x:nth-child(n-2147483646)", 2),
            ("x:nth-child(2n+1)", 1),
        ] {
            let n = fired(sel, doc);
            println!("{sel:32} on {doc}: fired {n} times, CSS expects {css}");
            assert_eq!(n, css, "{sel}");
        }
        for (sel, doc, css) in [
            ("x[k^=\"\"]", "<x data-probe=p k=\"foo\">", 0),
            ("x[k$=\"\"]", "<x data-probe=p k=\"ab\">", 0),
            ("x[k~=\"\"]", "<x data-probe=p k=\"\">", 0),
            ("x[k~=\"\"]", "<x data-probe=p k=\"a \">", 0),
            ("x[k~=\"\"]", "<x data-probe=p k=\"a  b\">", 0),
            ("x[k*=\"\"]", "<x data-probe=p k=\"foo\">", 0),
            ("x[k~=\"\"]", "<x data-probe=p k=\"a b\">", 0),
        ] {
            let n = fired(sel, doc);
            println!("{sel:32} on {doc}: fired {n} times, CSS expects {css}");
            assert_eq!(n, css, "{sel}");
        }
        assert_eq!(fired("x:nth-child(2n+1)", doc), 1);
        assert_eq!(fired("x[k*=\"\"]", "<x data-probe=p k=\"foo\">"), 0);
    }
}
