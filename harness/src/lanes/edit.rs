//! Lane `edit` (property C07). Case syntax: see lean/LolHtml/Lane/Edit.lean.
//! Runs the REAL `HtmlRewriter` on the concatenated raw bytes of the token list, split at the cut
//! positions, with handlers that replay the scripts; prints the sink bytes and the invocation count
//! of every handler. An independent reference editor (`reference`) applies the documented edit
//! semantics to the known token list; a disagreement is flagged ` ||ORACLE:C07:<tag> …`.
use crate::util::*;
use lol_html::html_content::{ContentType, Element, EndTag, StartTag};
use lol_html::{
    DocumentContentHandlers, ElementContentHandlers, HtmlRewriter, Selector, Settings,
};
use std::borrow::Cow;
use std::cell::{Cell, RefCell};
use std::rc::Rc;

// ------------------------------------------------------------------------------------------------
// case data

#[derive(Clone, Debug)]
pub struct Attr {
    pub name: Vec<u8>,
    pub value: Vec<u8>,
    pub raw: Vec<u8>,
}

#[derive(Clone, Debug)]
pub enum Tok {
    Text { raw: Vec<u8> },
    Start { raw: Vec<u8>, name: Vec<u8>, self_closing: bool, foreign: bool, attrs: Vec<Attr> },
    End { raw: Vec<u8>, name: Vec<u8> },
    Comment { raw: Vec<u8>, text: Vec<u8> },
    Doctype { raw: Vec<u8> },
}

impl Tok {
    pub fn raw(&self) -> &[u8] {
        match self {
            Tok::Text { raw }
            | Tok::Start { raw, .. }
            | Tok::End { raw, .. }
            | Tok::Comment { raw, .. }
            | Tok::Doctype { raw } => raw,
        }
    }
}

#[derive(Clone, Debug)]
pub enum Content {
    Buf(String, bool), // (content, is_text)
    Stream(Vec<(String, bool)>),
}

#[derive(Clone, Debug)]
pub enum Op {
    Before(Content),
    After(Content),
    Replace(Content),
    Prepend(Content),
    Append(Content),
    SetInner(Content),
    Remove,
    RemoveKeep,
    SetTagName(String),
    SetName(String),
    SetAttr(String, String),
    RemoveAttr(String),
    SetText(String),
    SetStr(String),
    StartTag(Box<Op>),
    OnEndTag(Vec<Op>),
    EndAppend(String, bool),
}

#[derive(Clone, Copy, Debug, PartialEq, Eq)]
pub enum Kind {
    Element,
    Comment,
    Text,
    Doctype,
    End,
}

#[derive(Clone, Debug)]
pub struct Handler {
    pub kind: Kind,
    pub sel: Option<String>, // None = document handler
    pub scripts: Vec<Vec<Op>>,
}

pub struct Case {
    pub toks: Vec<Tok>,
    pub cuts: Vec<usize>,
    pub handlers: Vec<Handler>, // dispatcher order: selector handlers first, then document handlers
}

// ------------------------------------------------------------------------------------------------
// parsing

fn p_str(s: &str) -> Option<String> {
    String::from_utf8(of_hex(s)?).ok()
}

fn p_write(s: &str) -> Option<(String, bool)> {
    let (k, rest) = s.split_at_checked(1)?;
    match k {
        "h" => Some((p_str(rest)?, false)),
        "t" => Some((p_str(rest)?, true)),
        _ => None,
    }
}

fn p_content(s: &str) -> Option<Content> {
    if let Some(rest) = s.strip_prefix('s') {
        if rest.is_empty() {
            return Some(Content::Stream(vec![]));
        }
        return Some(Content::Stream(
            rest.split('_').map(p_write).collect::<Option<Vec<_>>>()?,
        ));
    }
    let (c, t) = p_write(s)?;
    Some(Content::Buf(c, t))
}

fn p_op(kind: Kind, f: &[&str], nested: bool) -> Option<Op> {
    use Kind::*;
    let mutable = kind != Doctype && kind != End;
    Some(match (f[0], f.len()) {
        ("bf", 2) if mutable => Op::Before(p_content(f[1])?),
        ("af", 2) if mutable => Op::After(p_content(f[1])?),
        ("rp", 2) if mutable => Op::Replace(p_content(f[1])?),
        ("rm", 1) if kind != End => Op::Remove,
        ("pp", 2) if kind == Element && !nested => Op::Prepend(p_content(f[1])?),
        ("ap", 2) if kind == Element && !nested => Op::Append(p_content(f[1])?),
        ("ap", 2) if kind == End => {
            let (c, t) = p_write(f[1])?;
            Op::EndAppend(c, t)
        }
        ("si", 2) if kind == Element && !nested => Op::SetInner(p_content(f[1])?),
        ("rk", 1) if kind == Element && !nested => Op::RemoveKeep,
        ("tn", 2) if kind == Element && !nested => Op::SetTagName(p_str(f[1])?),
        // `sn` only on start tags (through st.) and end tags (through oe.)
        ("sn", 2) if nested => Op::SetName(p_str(f[1])?),
        ("sa", 3) if kind == Element => Op::SetAttr(p_str(f[1])?, p_str(f[2])?),
        ("ra", 2) if kind == Element => Op::RemoveAttr(p_str(f[1])?),
        ("sx", 2) if kind == Comment => Op::SetText(p_str(f[1])?),
        ("ss", 2) if kind == Text => Op::SetStr(p_str(f[1])?),
        ("st", 2) if kind == Element && !nested => {
            let g: Vec<&str> = f[1].split('~').collect();
            Op::StartTag(Box::new(p_op(Element, &g, true)?))
        }
        ("oe", 2) if kind == Element && !nested => {
            if f[1] == "-" {
                Op::OnEndTag(vec![])
            } else {
                let mut ops = vec![];
                for o in f[1].split('+') {
                    let g: Vec<&str> = o.split('~').collect();
                    // end-tag ops: bf af rp rm sn
                    match g[0] {
                        "bf" | "af" | "rp" | "rm" | "sn" => ops.push(p_op(Comment, &g, true)?),
                        _ => return None,
                    }
                }
                Op::OnEndTag(ops)
            }
        }
        _ => return None,
    })
}

fn p_script(kind: Kind, s: &str) -> Option<Vec<Op>> {
    if s == "-" {
        return Some(vec![]);
    }
    s.split(',')
        .map(|o| {
            let f: Vec<&str> = o.split('.').collect();
            p_op(kind, &f, false)
        })
        .collect()
}

fn p_handler(s: &str) -> Option<Handler> {
    let f: Vec<&str> = s.split(':').collect();
    if f.len() != 3 {
        return None;
    }
    let kind = match f[0] {
        "e" => Kind::Element,
        "c" => Kind::Comment,
        "t" => Kind::Text,
        "d" => Kind::Doctype,
        "z" => Kind::End,
        _ => return None,
    };
    let sel = if f[1] == "-" { None } else { Some(p_str(f[1])?) };
    let scripts = f[2].split('|').map(|x| p_script(kind, x)).collect::<Option<Vec<_>>>()?;
    Some(Handler { kind, sel, scripts })
}

fn p_attr(s: &str) -> Option<Attr> {
    let f: Vec<&str> = s.split('/').collect();
    if f.len() != 3 {
        return None;
    }
    Some(Attr { name: of_hex(f[0])?, value: of_hex(f[1])?, raw: of_hex(f[2])? })
}

fn p_tok(s: &str) -> Option<Tok> {
    let f: Vec<&str> = s.split(':').collect();
    Some(match (f[0], f.len()) {
        ("T", 2) => Tok::Text { raw: of_hex(f[1])? },
        ("S", 6) => Tok::Start {
            raw: of_hex(f[1])?,
            name: of_hex(f[2])?,
            self_closing: f[3] == "1",
            foreign: f[4] == "1",
            attrs: if f[5] == "-" {
                vec![]
            } else {
                f[5].split(',').map(p_attr).collect::<Option<Vec<_>>>()?
            },
        },
        ("E", 3) => Tok::End { raw: of_hex(f[1])?, name: of_hex(f[2])? },
        ("C", 3) => Tok::Comment { raw: of_hex(f[1])?, text: of_hex(f[2])? },
        ("D", 2) => Tok::Doctype { raw: of_hex(f[1])? },
        _ => return None,
    })
}

pub fn parse_case(line: &str) -> Option<Case> {
    let f: Vec<&str> = line.split_whitespace().collect();
    if f.len() != 3 {
        return None;
    }
    let toks = if f[0] == "-" {
        vec![]
    } else {
        f[0].split(';').map(p_tok).collect::<Option<Vec<_>>>()?
    };
    let mut cuts = nat_list(f[1])?;
    cuts.sort();
    let hs = if f[2] == "-" {
        vec![]
    } else {
        f[2].split(';').map(p_handler).collect::<Option<Vec<_>>>()?
    };
    let mut handlers: Vec<Handler> = hs.iter().filter(|h| h.sel.is_some()).cloned().collect();
    handlers.extend(hs.iter().filter(|h| h.sel.is_none()).cloned());
    Some(Case { toks, cuts, handlers })
}

// ------------------------------------------------------------------------------------------------
// replaying scripts on the real API

fn ct(is_text: bool) -> ContentType {
    if is_text { ContentType::Text } else { ContentType::Html }
}

fn streaming(writes: Vec<(String, bool)>) -> Box<dyn lol_html::html_content::StreamingHandler + Send> {
    lol_html::streaming!(move |sink| {
        for (c, t) in &writes {
            sink.write_str(c, ct(*t));
        }
        Ok(())
    })
}

macro_rules! content_op {
    ($unit:expr, $c:expr, $plain:ident, $stream:ident) => {
        match $c {
            Content::Buf(s, t) => $unit.$plain(s, ct(*t)),
            Content::Stream(w) => $unit.$stream(streaming(w.clone())),
        }
    };
}

fn apply_start_tag(st: &mut StartTag<'_>, op: &Op) {
    match op {
        Op::Before(c) => content_op!(st, c, before, streaming_before),
        Op::After(c) => content_op!(st, c, after, streaming_after),
        Op::Replace(c) => content_op!(st, c, replace, streaming_replace),
        Op::Remove => st.remove(),
        Op::SetName(n) => st.set_name(n.clone()),
        Op::SetAttr(n, v) => {
            let _ = st.set_attribute(n, v);
        }
        Op::RemoveAttr(n) => st.remove_attribute(n),
        _ => unreachable!("start tag op"),
    }
}

fn apply_end_tag(et: &mut EndTag<'_>, op: &Op) {
    match op {
        Op::Before(c) => content_op!(et, c, before, streaming_before),
        Op::After(c) => content_op!(et, c, after, streaming_after),
        Op::Replace(c) => content_op!(et, c, replace, streaming_replace),
        Op::Remove => et.remove(),
        Op::SetName(n) => et.set_name(n.clone()),
        _ => unreachable!("end tag op"),
    }
}

fn apply_element(el: &mut Element<'_, '_>, op: &Op) {
    match op {
        Op::Before(c) => content_op!(el, c, before, streaming_before),
        Op::After(c) => content_op!(el, c, after, streaming_after),
        Op::Replace(c) => content_op!(el, c, replace, streaming_replace),
        Op::Prepend(c) => content_op!(el, c, prepend, streaming_prepend),
        Op::Append(c) => content_op!(el, c, append, streaming_append),
        Op::SetInner(c) => content_op!(el, c, set_inner_content, streaming_set_inner_content),
        Op::Remove => el.remove(),
        Op::RemoveKeep => el.remove_and_keep_content(),
        Op::SetTagName(n) => {
            let _ = el.set_tag_name(n);
        }
        Op::SetAttr(n, v) => {
            let _ = el.set_attribute(n, v);
        }
        Op::RemoveAttr(n) => el.remove_attribute(n),
        Op::StartTag(o) => apply_start_tag(el.start_tag(), o),
        Op::OnEndTag(ops) => {
            let ops = ops.clone();
            let _ = el.on_end_tag(Box::new(move |et: &mut EndTag<'_>| {
                for o in &ops {
                    apply_end_tag(et, o);
                }
                Ok(())
            }));
        }
        _ => unreachable!("element op"),
    }
}

struct Run {
    out: Vec<u8>,
    inv: Vec<usize>,
    err: Option<String>,
    mismatch: Option<String>,
}

fn pick<'a>(h: &'a Handler, k: usize) -> &'a [Op] {
    if h.scripts.is_empty() { &[] } else { &h.scripts[k % h.scripts.len()] }
}

fn run_real(case: &Case) -> Run {
    let input: Vec<u8> = case.toks.iter().flat_map(|t| t.raw().to_vec()).collect();
    // offset -> token (for the generator self-check)
    let mut starts = std::collections::HashMap::new();
    let mut off = 0usize;
    for t in &case.toks {
        starts.insert(off, t.clone());
        off += t.raw().len();
    }
    let starts = Rc::new(starts);
    let out = Rc::new(RefCell::new(Vec::new()));
    let counters: Vec<Rc<Cell<usize>>> = case.handlers.iter().map(|_| Rc::new(Cell::new(0))).collect();
    let mismatch: Rc<RefCell<Option<String>>> = Rc::new(RefCell::new(None));
    let seen: Rc<RefCell<std::collections::HashSet<usize>>> = Rc::new(RefCell::new(Default::default()));

    let mut settings = Settings::new();
    for (i, h) in case.handlers.iter().enumerate() {
        let cnt = counters[i].clone();
        let h = h.clone();
        let next = move || {
            let k = cnt.get();
            cnt.set(k + 1);
            k
        };
        match (&h.sel, h.kind) {
            (Some(sel), Kind::Element) => {
                let selector: Selector = sel.parse().expect("selector");
                let starts = starts.clone();
                let mismatch = mismatch.clone();
                let seen = seen.clone();
                let hh = h.clone();
                settings = settings.append_element_content_handler((
                    Cow::Owned(selector),
                    ElementContentHandlers::default().element(move |el: &mut Element<'_, '_>| {
                        let k = next();
                        // generator self-check: the token the generator thinks is here
                        let loc = el.source_location().bytes();
                        match starts.get(&loc.start) {
                            _ if !seen.borrow_mut().insert(loc.start) => {} // only the first handler sees it untouched
                            Some(Tok::Start { raw, name, foreign, self_closing, .. }) => {
                                let ns_foreign = el.namespace_uri() != "http://www.w3.org/1999/xhtml";
                                if raw.len() != loc.end - loc.start
                                    || ns_foreign != *foreign
                                    || el.is_self_closing() != *self_closing
                                    || el.tag_name_preserve_case().as_bytes() != &name[..]
                                {
                                    *mismatch.borrow_mut() = Some(format!("start@{}", loc.start));
                                }
                            }
                            _ => *mismatch.borrow_mut() = Some(format!("nostart@{}", loc.start)),
                        }
                        for op in pick(&hh, k) {
                            apply_element(el, op);
                        }
                        Ok(())
                    }),
                ));
            }
            (Some(sel), Kind::Comment) => {
                let selector: Selector = sel.parse().expect("selector");
                let hh = h.clone();
                settings = settings.append_element_content_handler((
                    Cow::Owned(selector),
                    ElementContentHandlers::default().comments(
                        move |c: &mut lol_html::html_content::Comment<'_>| {
                            let k = next();
                            for op in pick(&hh, k) {
                                apply_comment(c, op);
                            }
                            Ok(())
                        },
                    ),
                ));
            }
            (Some(sel), Kind::Text) => {
                let selector: Selector = sel.parse().expect("selector");
                let hh = h.clone();
                settings = settings.append_element_content_handler((
                    Cow::Owned(selector),
                    ElementContentHandlers::default().text(
                        move |c: &mut lol_html::html_content::TextChunk<'_>| {
                            let k = next();
                            for op in pick(&hh, k) {
                                apply_text(c, op);
                            }
                            Ok(())
                        },
                    ),
                ));
            }
            (None, Kind::Comment) => {
                let hh = h.clone();
                settings = settings.append_document_content_handler(
                    DocumentContentHandlers::default().comments(
                        move |c: &mut lol_html::html_content::Comment<'_>| {
                            let k = next();
                            for op in pick(&hh, k) {
                                apply_comment(c, op);
                            }
                            Ok(())
                        },
                    ),
                );
            }
            (None, Kind::Text) => {
                let hh = h.clone();
                settings = settings.append_document_content_handler(
                    DocumentContentHandlers::default().text(
                        move |c: &mut lol_html::html_content::TextChunk<'_>| {
                            let k = next();
                            for op in pick(&hh, k) {
                                apply_text(c, op);
                            }
                            Ok(())
                        },
                    ),
                );
            }
            (None, Kind::Doctype) => {
                let hh = h.clone();
                settings = settings.append_document_content_handler(
                    DocumentContentHandlers::default().doctype(
                        move |d: &mut lol_html::html_content::Doctype<'_>| {
                            let k = next();
                            for op in pick(&hh, k) {
                                if let Op::Remove = op {
                                    d.remove();
                                }
                            }
                            Ok(())
                        },
                    ),
                );
            }
            (None, Kind::End) => {
                let hh = h.clone();
                settings = settings.append_document_content_handler(
                    DocumentContentHandlers::default().end(
                        move |e: &mut lol_html::html_content::DocumentEnd<'_>| {
                            let k = next();
                            for op in pick(&hh, k) {
                                if let Op::EndAppend(c, t) = op {
                                    e.append(c, ct(*t));
                                }
                            }
                            Ok(())
                        },
                    ),
                );
            }
            _ => panic!("bad handler kind/selector combination"),
        }
    }

    let mut err = None;
    {
        let out2 = out.clone();
        let mut rewriter = HtmlRewriter::new(settings, move |c: &[u8]| out2.borrow_mut().extend_from_slice(c));
        for chunk in split_at_cuts(&input, &case.cuts) {
            if let Err(e) = rewriter.write(chunk) {
                err = Some(format!("{e:?}"));
                break;
            }
        }
        if err.is_none() {
            if let Err(e) = rewriter.end() {
                err = Some(format!("{e:?}"));
            }
        }
    }
    let o = out.borrow().clone();
    Run {
        out: o,
        inv: counters.iter().map(|c| c.get()).collect(),
        err,
        mismatch: mismatch.borrow().clone(),
    }
}

fn apply_comment(c: &mut lol_html::html_content::Comment<'_>, op: &Op) {
    match op {
        Op::Before(x) => content_op!(c, x, before, streaming_before),
        Op::After(x) => content_op!(c, x, after, streaming_after),
        Op::Replace(x) => content_op!(c, x, replace, streaming_replace),
        Op::Remove => c.remove(),
        Op::SetText(t) => {
            let _ = c.set_text(t);
        }
        _ => unreachable!("comment op"),
    }
}

fn apply_text(c: &mut lol_html::html_content::TextChunk<'_>, op: &Op) {
    match op {
        Op::Before(x) => content_op!(c, x, before, streaming_before),
        Op::After(x) => content_op!(c, x, after, streaming_after),
        Op::Replace(x) => content_op!(c, x, replace, streaming_replace),
        Op::Remove => c.remove(),
        Op::SetStr(t) => c.set_str(t.clone()),
        _ => unreachable!("text op"),
    }
}

pub fn run(line: &str) -> String {
    let Some(case) = parse_case(line) else {
        return "bad-case".into();
    };
    let r = run_real(&case);
    if let Some(e) = r.err {
        return format!("ERR {}", e.replace(' ', "_"));
    }
    if let Some(m) = r.mismatch {
        return format!("gen-mismatch {m}");
    }
    let (expected, clean, flag) = reference::check(&case, &r.out);
    let mut line = format!(
        "{} {} {} {}{}",
        hex_or_dash(&r.out),
        nat_list_str(&r.inv),
        hex_or_dash(&expected),
        clean.0 as u8,
        clean.1 as u8
    );
    if let Some(flag) = flag {
        line.push_str(&format!(" ||ORACLE:C07:{flag}"));
    }
    line
}

// ------------------------------------------------------------------------------------------------
// independent reference editor (documented semantics over the known token list)
//
// Extent based: an element is its start tag, everything up to the end tag that closes it (the
// innermost open element with that name; elements above it are closed *implicitly* right before that
// end tag; elements still open at the end of input end there), and that end tag. Every `Element`
// method edits one of the regions  before · start tag · prepended · inner · appended · end tag ·
// after. Content of an element whose inner content is removed is dropped with everything handlers
// insert inside. Handlers are invoked exactly as the dispatcher is documented to invoke them (the
// invocation number selects the script), `on_end_tag` handlers only for explicitly closed elements.
mod reference {
    use super::*;

    fn enc1(c: &str, is_text: bool) -> Vec<u8> {
        if !is_text {
            return c.as_bytes().to_vec();
        }
        let mut o = Vec::new();
        for &b in c.as_bytes() {
            match b {
                b'<' => o.extend_from_slice(b"&lt;"),
                b'>' => o.extend_from_slice(b"&gt;"),
                b'&' => o.extend_from_slice(b"&amp;"),
                _ => o.push(b),
            }
        }
        o
    }

    fn enc(c: &Content) -> Vec<u8> {
        match c {
            Content::Buf(s, t) => enc1(s, *t),
            Content::Stream(w) => w.iter().flat_map(|(s, t)| enc1(s, *t)).collect(),
        }
    }

    /// before · (own | replacement | nothing) · after
    #[derive(Default, Clone)]
    struct TokEdit {
        before: Vec<u8>,
        after: Vec<u8>,
        dropped: bool,
        repl: Vec<u8>,
    }

    impl TokEdit {
        fn op(&mut self, op: &Op) -> bool {
            match op {
                Op::Before(c) => self.before.extend(enc(c)),
                Op::After(c) => {
                    let mut n = enc(c);
                    n.extend_from_slice(&self.after);
                    self.after = n;
                }
                Op::Replace(c) => {
                    self.dropped = true;
                    self.repl = enc(c);
                }
                Op::Remove => self.dropped = true,
                _ => return false,
            }
            true
        }
        fn render(&self, own: &[u8]) -> Vec<u8> {
            let mut o = self.before.clone();
            if self.dropped {
                o.extend_from_slice(&self.repl);
            } else {
                o.extend_from_slice(own);
            }
            o.extend_from_slice(&self.after);
            o
        }
    }

    #[derive(Clone)]
    struct RAttr {
        name: Vec<u8>,
        value: Vec<u8>,
        raw: Option<Vec<u8>>,
    }

    #[derive(Clone)]
    struct RStart {
        name: Vec<u8>,
        attrs: Vec<RAttr>,
        self_closing: bool,
        raw: Vec<u8>,
        rebuilt: bool,
    }

    fn valid_attr_name(n: &str) -> bool {
        !n.is_empty() && !n.bytes().any(|b| b" \n\r\t\x0c/>=".contains(&b))
    }

    fn valid_tag_name(n: &str) -> bool {
        match n.as_bytes().first() {
            Some(c) if c.is_ascii_alphabetic() => !n.bytes().any(|b| b" \n\r\t\x0c/>".contains(&b)),
            _ => false,
        }
    }

    impl RStart {
        fn set_attr(&mut self, n: &str, v: &str) {
            if !valid_attr_name(n) {
                return;
            }
            let ln = n.to_ascii_lowercase();
            self.rebuilt = true;
            if let Some(a) = self.attrs.iter_mut().find(|a| a.name.eq_ignore_ascii_case(ln.as_bytes())) {
                a.value = v.as_bytes().to_vec();
                a.raw = None;
            } else {
                self.attrs.push(RAttr { name: ln.into_bytes(), value: v.as_bytes().to_vec(), raw: None });
            }
        }
        fn remove_attr(&mut self, n: &str) {
            // "Removes an attribute with the `name` if it is present": a lookup, no validation of the name
            // (`<a =b>` has an attribute named `=b`; finding F8, repaired)
            let before = self.attrs.len();
            self.attrs.retain(|a| !a.name.eq_ignore_ascii_case(n.as_bytes()));
            if self.attrs.len() != before {
                self.rebuilt = true;
            }
        }
        fn own(&self) -> Vec<u8> {
            if !self.rebuilt {
                return self.raw.clone();
            }
            let mut o = b"<".to_vec();
            o.extend_from_slice(&self.name);
            for a in &self.attrs {
                o.push(b' ');
                match &a.raw {
                    Some(r) => o.extend_from_slice(r),
                    None => {
                        o.extend_from_slice(&a.name);
                        o.extend_from_slice(b"=\"");
                        for &b in &a.value {
                            if b == b'"' {
                                o.extend_from_slice(b"&quot;");
                            } else {
                                o.push(b);
                            }
                        }
                        o.push(b'"');
                    }
                }
            }
            if self.self_closing {
                if !self.attrs.is_empty() {
                    o.push(b' ');
                }
                o.extend_from_slice(b"/>");
            } else {
                o.push(b'>');
            }
            o
        }
    }

    struct RElem {
        chc: bool,
        start: RStart,
        before: Vec<u8>,
        start_dropped: bool,
        start_repl: Vec<u8>,
        prepend: Vec<u8>,
        inner_removed: bool,
        append: Vec<u8>,
        end_dropped: bool,
        after: Vec<u8>,
        end_name: Option<Vec<u8>>,
        end_handlers: Vec<Vec<Op>>,
    }

    fn push_front(v: &mut Vec<u8>, c: Vec<u8>) {
        let mut n = c;
        n.extend_from_slice(v);
        *v = n;
    }

    impl RElem {
        fn clear_inner(&mut self) {
            self.prepend.clear();
            self.append.clear();
            self.inner_removed = true;
        }
        fn op(&mut self, op: &Op) {
            match op {
                Op::Before(c) => self.before.extend(enc(c)),
                Op::After(c) => push_front(&mut self.after, enc(c)),
                Op::Prepend(c) if self.chc => {
                    self.start.self_closing = false;
                    push_front(&mut self.prepend, enc(c));
                }
                Op::Append(c) if self.chc => {
                    self.start.self_closing = false;
                    self.append.extend(enc(c));
                }
                Op::SetInner(c) if self.chc => {
                    self.start.self_closing = false;
                    self.clear_inner();
                    self.prepend = enc(c);
                }
                Op::Prepend(_) | Op::Append(_) | Op::SetInner(_) => {}
                Op::Replace(c) => {
                    self.start_dropped = true;
                    self.start_repl = enc(c);
                    if self.chc {
                        self.clear_inner();
                        self.end_dropped = true;
                    }
                }
                Op::Remove => {
                    self.start_dropped = true;
                    if self.chc {
                        self.clear_inner();
                        self.end_dropped = true;
                    }
                }
                Op::RemoveKeep => {
                    self.start_dropped = true;
                    if self.chc {
                        self.end_dropped = true;
                    }
                }
                Op::SetTagName(n) => {
                    if valid_tag_name(n) {
                        self.start.name = n.as_bytes().to_vec();
                        self.start.rebuilt = true;
                        if self.chc {
                            self.end_name = Some(n.as_bytes().to_vec());
                        }
                    }
                }
                Op::SetAttr(n, v) => self.start.set_attr(n, v),
                Op::RemoveAttr(n) => self.start.remove_attr(n),
                Op::StartTag(o) => match &**o {
                    Op::Before(c) => self.before.extend(enc(c)),
                    // right after the start tag = front of the inner content (or, without content,
                    // right after the element)
                    Op::After(c) => {
                        if self.chc {
                            push_front(&mut self.prepend, enc(c))
                        } else {
                            push_front(&mut self.after, enc(c))
                        }
                    }
                    Op::Replace(c) => {
                        self.start_dropped = true;
                        self.start_repl = enc(c);
                    }
                    Op::Remove => self.start_dropped = true,
                    Op::SetName(n) => {
                        self.start.name = n.as_bytes().to_vec();
                        self.start.rebuilt = true;
                    }
                    Op::SetAttr(n, v) => self.start.set_attr(n, v),
                    Op::RemoveAttr(n) => self.start.remove_attr(n),
                    _ => unreachable!(),
                },
                Op::OnEndTag(ops) => {
                    if self.chc {
                        self.end_handlers.push(ops.clone());
                    }
                }
                _ => unreachable!(),
            }
        }
        fn start_region(&self) -> Vec<u8> {
            let mut o = self.before.clone();
            if self.start_dropped {
                o.extend_from_slice(&self.start_repl);
            } else {
                o.extend(self.start.own());
            }
            if self.chc {
                o.extend_from_slice(&self.prepend);
            } else {
                o.extend_from_slice(&self.after);
            }
            o
        }
        fn has_end_edits(&self) -> bool {
            !self.append.is_empty()
                || !self.after.is_empty()
                || self.end_dropped
                || self.end_name.is_some()
                || self.end_handlers.iter().any(|h| !h.is_empty())
        }
    }

    struct OpenEl {
        lname: Vec<u8>,
        matched: Vec<usize>,
        elem: Option<RElem>,
    }

    const VOID: &[&str] = &[
        "area", "base", "basefont", "bgsound", "br", "col", "embed", "hr", "img", "input", "keygen",
        "link", "meta", "param", "source", "track", "wbr",
    ];

    struct Ed<'a> {
        case: &'a Case,
        open: Vec<OpenEl>,
        suppress: usize,
        out: Vec<u8>,
        inv: Vec<usize>,
        text_pending: bool,
        saw_implicit: bool,
        saw_touched_implicit: bool,
        saw_eof_unclosed: bool,
    }

    impl<'a> Ed<'a> {
        fn emit(&mut self, b: &[u8]) {
            if self.suppress == 0 {
                self.out.extend_from_slice(b);
            }
        }
        fn script(&mut self, i: usize) -> Vec<Op> {
            let h = &self.case.handlers[i];
            let k = self.inv[i];
            self.inv[i] += 1;
            if h.scripts.is_empty() { vec![] } else { h.scripts[k % h.scripts.len()].clone() }
        }
        fn active(&self, kind: Kind) -> Vec<usize> {
            (0..self.case.handlers.len())
                .filter(|&i| {
                    let h = &self.case.handlers[i];
                    h.kind == kind
                        && (h.sel.is_none() || self.open.iter().any(|o| o.matched.contains(&i)))
                })
                .collect()
        }
        fn text_chunk(&mut self, text: &[u8]) {
            let hs = self.active(Kind::Text);
            if hs.is_empty() {
                self.emit(text);
                return;
            }
            let mut e = TokEdit::default();
            let mut own = text.to_vec();
            for i in hs {
                for op in self.script(i) {
                    if !e.op(&op) {
                        if let Op::SetStr(t) = op {
                            own = t.into_bytes();
                        }
                    }
                }
            }
            let r = e.render(&own);
            self.emit(&r);
        }
        fn flush_text(&mut self) {
            if self.text_pending {
                self.text_pending = false;
                self.text_chunk(b"");
            }
        }
        fn close_implicit(&mut self, o: OpenEl, at_eof: bool) {
            if let Some(el) = o.elem {
                if !at_eof {
                    self.saw_touched_implicit = true;
                }
                if el.inner_removed {
                    self.suppress -= 1;
                }
                if el.has_end_edits() {
                    if at_eof {
                        self.saw_eof_unclosed = true;
                    } else {
                        self.saw_implicit = true;
                    }
                }
                let mut r = el.append.clone();
                r.extend_from_slice(&el.after);
                self.emit(&r);
            }
        }
        fn run(&mut self) {
            let toks = self.case.toks.clone();
            let mut off = 0usize;
            for t in &toks {
                match t {
                    Tok::Text { raw } => {
                        let any = !self.active(Kind::Text).is_empty();
                        if !any {
                            self.emit(raw);
                        } else {
                            // one chunk per piece between cuts
                            let mut start = 0usize;
                            let mut cuts: Vec<usize> = self
                                .case
                                .cuts
                                .iter()
                                .copied()
                                .filter(|&c| c > off && c < off + raw.len())
                                .collect();
                            cuts.dedup();
                            for c in cuts {
                                self.text_pending = true;
                                self.text_chunk(&raw[start..c - off]);
                                start = c - off;
                            }
                            self.text_pending = true;
                            self.text_chunk(&raw[start..]);
                        }
                    }
                    Tok::Comment { raw, text } => {
                        self.flush_text();
                        let hs = self.active(Kind::Comment);
                        if hs.is_empty() {
                            self.emit(raw);
                        } else {
                            let mut e = TokEdit::default();
                            let mut own = raw.clone();
                            let _ = text;
                            for i in hs {
                                for op in self.script(i) {
                                    if !e.op(&op) {
                                        if let Op::SetText(t) = op {
                                            let bad = t.contains("-->")
                                                || t.contains("--!>")
                                                || t.starts_with('>')
                                                || t.starts_with("->");
                                            if !bad {
                                                own = format!("<!--{t}-->").into_bytes();
                                            }
                                        }
                                    }
                                }
                            }
                            let r = e.render(&own);
                            self.emit(&r);
                        }
                    }
                    Tok::Doctype { raw } => {
                        self.flush_text();
                        let hs = self.active(Kind::Doctype);
                        let mut removed = false;
                        for i in hs {
                            for op in self.script(i) {
                                if let Op::Remove = op {
                                    removed = true;
                                }
                            }
                        }
                        if !removed {
                            self.emit(raw);
                        }
                    }
                    Tok::Start { raw, name, self_closing, foreign, attrs } => {
                        self.flush_text();
                        let lname = name.to_ascii_lowercase();
                        let chc = if *foreign {
                            !*self_closing
                        } else {
                            !VOID.iter().any(|v| v.as_bytes() == &lname[..])
                        };
                        let matched: Vec<usize> = (0..self.case.handlers.len())
                            .filter(|&i| match &self.case.handlers[i].sel {
                                Some(s) => s == "*" || s.as_bytes() == &lname[..],
                                None => false,
                            })
                            .collect();
                        let el_handlers: Vec<usize> = matched
                            .iter()
                            .copied()
                            .filter(|&i| self.case.handlers[i].kind == Kind::Element)
                            .collect();
                        let mut elem = None;
                        if el_handlers.is_empty() {
                            self.emit(raw);
                        } else {
                            let mut el = RElem {
                                chc,
                                start: RStart {
                                    name: name.clone(),
                                    attrs: attrs
                                        .iter()
                                        .map(|a| RAttr {
                                            name: a.name.clone(),
                                            value: a.value.clone(),
                                            raw: Some(a.raw.clone()),
                                        })
                                        .collect(),
                                    self_closing: *self_closing,
                                    raw: raw.clone(),
                                    rebuilt: false,
                                },
                                before: vec![],
                                start_dropped: false,
                                start_repl: vec![],
                                prepend: vec![],
                                inner_removed: false,
                                append: vec![],
                                end_dropped: false,
                                after: vec![],
                                end_name: None,
                                end_handlers: vec![],
                            };
                            for i in el_handlers {
                                for op in self.script(i) {
                                    el.op(&op);
                                }
                            }
                            let r = el.start_region();
                            self.emit(&r);
                            if chc && el.inner_removed {
                                self.suppress += 1;
                            }
                            elem = Some(el);
                        }
                        if chc {
                            self.open.push(OpenEl { lname, matched, elem });
                        }
                    }
                    Tok::End { raw, name } => {
                        self.flush_text();
                        let lname = name.to_ascii_lowercase();
                        match self.open.iter().rposition(|o| o.lname == lname) {
                            None => self.emit(raw),
                            Some(idx) => {
                                while self.open.len() > idx + 1 {
                                    let o = self.open.pop().unwrap();
                                    self.close_implicit(o, false);
                                }
                                let target = self.open.pop().unwrap();
                                match target.elem {
                                    None => self.emit(raw),
                                    Some(el) => {
                                        if el.inner_removed {
                                            self.suppress -= 1;
                                        }
                                        let mut e = TokEdit {
                                            before: el.append.clone(),
                                            after: el.after.clone(),
                                            dropped: el.end_dropped,
                                            repl: vec![],
                                        };
                                        let mut own = match &el.end_name {
                                            Some(n) => [b"</", &n[..], b">"].concat(),
                                            None => raw.clone(),
                                        };
                                        for h in &el.end_handlers {
                                            for op in h {
                                                if !e.op(op) {
                                                    if let Op::SetName(n) = op {
                                                        own = [b"</", n.as_bytes(), b">"].concat();
                                                    }
                                                }
                                            }
                                        }
                                        let r = e.render(&own);
                                        self.emit(&r);
                                    }
                                }
                            }
                        }
                    }
                }
                off += t.raw().len();
            }
            self.flush_text();
            while let Some(o) = self.open.pop() {
                self.close_implicit(o, true);
            }
            // `end` handlers: the dispatcher runs them last-registered first; DocumentEnd::append
            // writes whatever the emission state is
            let ends: Vec<usize> = (0..self.case.handlers.len())
                .filter(|&i| self.case.handlers[i].kind == Kind::End)
                .collect();
            for i in ends.into_iter().rev() {
                for op in self.script(i) {
                    if let Op::EndAppend(c, t) = op {
                        self.out.extend(enc1(&c, t));
                    }
                }
            }
        }
    }

    /// The documented output, and `Some(flag text)` if the implementation's output differs from it.
    pub fn check(case: &Case, out: &[u8]) -> (Vec<u8>, (bool, bool), Option<String>) {
        let mut ed = Ed {
            case,
            open: vec![],
            suppress: 0,
            out: vec![],
            inv: vec![0; case.handlers.len()],
            text_pending: false,
            saw_implicit: false,
            saw_touched_implicit: false,
            saw_eof_unclosed: false,
        };
        ed.run();
        // "clean": no element with end-region edits ended without an end tag of its own
        // "tidy": moreover no element handler ran on any implicitly closed element
        let clean = (
            !ed.saw_implicit && !ed.saw_eof_unclosed,
            !ed.saw_touched_implicit && !ed.saw_eof_unclosed,
        );
        if ed.out == out {
            return (ed.out, clean, None);
        }
        let tag = if ed.saw_implicit {
            "implicit-close"
        } else if ed.saw_eof_unclosed {
            "unclosed-eof"
        } else {
            "other"
        };
        let msg = format!("{tag} expected={} got={}", hex_or_dash(&ed.out), hex_or_dash(out));
        (ed.out, clean, Some(msg))
    }
}
