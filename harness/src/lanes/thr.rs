//! Lane `thr` (implementation only, property C18): the same rewrite
//!   (a) sequentially on the calling thread (reference),
//!   (b) on N threads at once, each with its own rewriter, with random yields between writes,
//!   (c) with ONE `lol_html::send::HtmlRewriter` that is moved to a fresh thread after every write,
//!   (d) again sequentially after all of that (repetition),
//! must give identical results (result kind, sink bytes, handler event log). Concurrent selector parsing
//! must succeed on every thread. Through the C API: an error recorded by thread A is invisible to and not
//! cleared by thread B (`thread_local! LAST_ERROR`).
//! case: `<input hex> <cuts,comma|-> <threads> <seed> <config 0..3>`
//! observation: `<result> len=<n> fnv=<hash of sink bytes> ev=<number of handler events>`
use crate::util::*;
use lol_html::html_content::ContentType;
use lol_html::send::{HtmlRewriter, Settings};
use lol_html::{comments, doc_comments, element, end, text};
use std::sync::{Arc, Mutex};

#[derive(Clone, PartialEq, Debug)]
struct Outcome {
    result: String,
    out: Vec<u8>,
    events: Vec<String>,
}

struct Rng(u64);
impl Rng {
    fn next(&mut self) -> u64 {
        self.0 = self.0.wrapping_add(0x9E3779B97F4A7C15);
        let mut z = self.0;
        z = (z ^ (z >> 30)).wrapping_mul(0xBF58476D1CE4E5B9);
        z = (z ^ (z >> 27)).wrapping_mul(0x94D049BB133111EB);
        z ^ (z >> 31)
    }
}

type Sink = Box<dyn FnMut(&[u8]) + Send>;

fn build(config: usize, out: Arc<Mutex<Vec<u8>>>, ev: Arc<Mutex<Vec<String>>>) -> HtmlRewriter<'static, Sink> {
    let mut settings = Settings::new_send();
    let (e1, e2, e3, e4, e5) = (ev.clone(), ev.clone(), ev.clone(), ev.clone(), ev.clone());
    match config {
        0 => {}
        1 => {
            let mut n = 0usize; // per-instance state: must never be shared between instances
            for h in [
                element!("*", move |el| {
                    n += 1;
                    el.set_attribute("data-n", &n.to_string())?;
                    e1.lock().unwrap().push(format!("el:{}:{}", el.tag_name(), n));
                    Ok(())
                }),
                comments!("*", move |c| {
                    e2.lock().unwrap().push(format!("c:{}", c.text()));
                    c.replace("<!--r-->", ContentType::Html);
                    Ok(())
                }),
            ] {
                settings = settings.append_element_content_handler(h);
            }
        }
        2 => {
            settings = settings.append_element_content_handler(text!("p", move |t| {
                e3.lock().unwrap().push(format!("t:{}:{}", t.as_str(), t.last_in_text_node()));
                if t.last_in_text_node() {
                    t.after("!", ContentType::Text);
                }
                Ok(())
            }));
            for h in [
                doc_comments!(move |c| {
                    e4.lock().unwrap().push(format!("dc:{}", c.text()));
                    Ok(())
                }),
                end!(move |e| {
                    e.append("<!--end-->", ContentType::Html);
                    Ok(())
                }),
            ] {
                settings = settings.append_document_content_handler(h);
            }
        }
        _ => {
            let mut n = 0usize;
            settings = settings.append_element_content_handler(element!("a[href], b", move |el| {
                n += 1;
                e5.lock().unwrap().push(format!("a:{}", n));
                if n == 3 {
                    return Err("third".into());
                }
                el.before("[", ContentType::Text);
                Ok(())
            }));
        }
    }
    let sink: Sink = Box::new(move |c: &[u8]| out.lock().unwrap().extend_from_slice(c));
    HtmlRewriter::new(settings, sink)
}

fn finish(result: String, out: &Arc<Mutex<Vec<u8>>>, ev: &Arc<Mutex<Vec<String>>>) -> Outcome {
    Outcome { result, out: out.lock().unwrap().clone(), events: ev.lock().unwrap().clone() }
}

fn run_seq(config: usize, chunks: &[Vec<u8>], yields: Option<&mut Rng>) -> Outcome {
    let out = Arc::new(Mutex::new(vec![]));
    let ev = Arc::new(Mutex::new(vec![]));
    let mut rw = build(config, out.clone(), ev.clone());
    let mut rng = yields;
    for c in chunks {
        if let Some(r) = rng.as_deref_mut() {
            for _ in 0..(r.next() % 4) {
                std::thread::yield_now();
            }
        }
        if let Err(e) = rw.write(c) {
            return finish(format!("err:{e}"), &out, &ev);
        }
    }
    let res = match rw.end() {
        Ok(()) => "ok".to_string(),
        Err(e) => format!("err:{e}"),
    };
    finish(res, &out, &ev)
}

fn run_migrating(config: usize, chunks: &[Vec<u8>]) -> Outcome {
    let out = Arc::new(Mutex::new(vec![]));
    let ev = Arc::new(Mutex::new(vec![]));
    let mut rw = Some(build(config, out.clone(), ev.clone()));
    for c in chunks {
        let mut moved = rw.take().unwrap();
        let c = c.clone();
        // a fresh thread takes the rewriter, writes, and hands it back
        let (back, res) = std::thread::spawn(move || {
            let r = moved.write(&c);
            (moved, r)
        })
        .join()
        .unwrap();
        if let Err(e) = res {
            return finish(format!("err:{e}"), &out, &ev);
        }
        rw = Some(back);
    }
    let last = rw.take().unwrap();
    let res = std::thread::spawn(move || last.end()).join().unwrap();
    finish(match res { Ok(()) => "ok".into(), Err(e) => format!("err:{e}") }, &out, &ev)
}

fn fnv(b: &[u8]) -> u64 {
    b.iter().fold(0xcbf29ce484222325u64, |h, x| (h ^ *x as u64).wrapping_mul(0x100000001b3))
}

/// LAST_ERROR of the C API: set on thread A, not visible on / not cleared by thread B.
fn last_error_isolated() -> Result<(), String> {
    use lolhtml::errors::lol_html_take_last_error;
    #[repr(C)]
    struct RawStr {
        data: *const libc::c_char,
        len: usize,
    }
    fn take() -> bool {
        let s = lol_html_take_last_error();
        let raw: &RawStr = unsafe { &*(&s as *const lolhtml::Str as *const RawStr) };
        let has = !raw.data.is_null();
        unsafe { lolhtml::string::lol_html_str_free(s) };
        has
    }
    let (to_b, from_a) = std::sync::mpsc::channel::<()>();
    let (to_a, from_b) = std::sync::mpsc::channel::<bool>();
    let b = std::thread::spawn(move || {
        from_a.recv().unwrap();
        let seen = take(); // must be false: B never failed
        to_a.send(seen).unwrap();
    });
    let a = std::thread::spawn(move || {
        let bad = b"a[";
        let p = unsafe { lolhtml::selector::lol_html_selector_parse(bad.as_ptr() as *const libc::c_char, bad.len()) };
        assert!(p.is_null());
        to_b.send(()).unwrap();
        let seen_by_b = from_b.recv().unwrap();
        let own = take(); // must still be there
        let again = take(); // and be cleared by the take
        (seen_by_b, own, again)
    });
    let (seen_by_b, own, again) = a.join().map_err(|_| "thread A panicked".to_string())?;
    b.join().map_err(|_| "thread B panicked".to_string())?;
    if seen_by_b {
        return Err("error of thread A visible on thread B".into());
    }
    if !own {
        return Err("error of thread A cleared by thread B (or never recorded)".into());
    }
    if again {
        return Err("take_last_error did not clear the slot".into());
    }
    Ok(())
}

pub fn run(line: &str) -> String {
    let f: Vec<&str> = line.split_whitespace().collect();
    if f.len() != 5 {
        return "bad-case".into();
    }
    let (Some(input), Some(cuts), Ok(threads), Ok(seed), Ok(config)) =
        (of_hex(f[0]), nat_list(f[1]), f[2].parse::<usize>(), f[3].parse::<u64>(), f[4].parse::<usize>())
    else {
        return "bad-case".into();
    };
    let chunks: Vec<Vec<u8>> = split_at_cuts(&input, &cuts).into_iter().map(|c| c.to_vec()).collect();
    let reference = run_seq(config, &chunks, None);
    let mut oracle: Vec<String> = vec![];

    // (b) N threads at once
    let mut hs = vec![];
    for i in 0..threads.clamp(1, 16) {
        let chunks = chunks.clone();
        hs.push(std::thread::spawn(move || {
            let mut rng = Rng(seed ^ (i as u64).wrapping_mul(0xA24BAED4963EE407));
            let r = run_seq(config, &chunks, Some(&mut rng));
            // concurrent selector parsing on the side
            let sel_ok = ["div > p", "a[href^='x']", "*:not(b)", "li:nth-child(2n+1)"].iter().all(|s| s.parse::<lol_html::Selector>().is_ok());
            (r, sel_ok)
        }));
    }
    for (i, h) in hs.into_iter().enumerate() {
        match h.join() {
            Ok((r, sel_ok)) => {
                if r != reference {
                    oracle.push(format!("C18:parallel thread {i}: {:?} / sequential {:?}", (&r.result, r.out.len(), r.events.len()), (&reference.result, reference.out.len(), reference.events.len())));
                }
                if !sel_ok {
                    oracle.push(format!("C18:selector-parse thread {i}: a valid selector failed to parse"));
                }
            }
            Err(_) => oracle.push(format!("C18:parallel-panic thread {i}")),
        }
    }
    // (c) one Send rewriter migrating between threads
    let mig = run_migrating(config, &chunks);
    if mig != reference {
        oracle.push(format!("C18:migrating {:?} / sequential {:?}", (&mig.result, mig.out.len(), mig.events.len()), (&reference.result, reference.out.len(), reference.events.len())));
    }
    // (d) repetition
    let again = run_seq(config, &chunks, None);
    if again != reference {
        oracle.push("C18:repeat second sequential run differs from the first".into());
    }
    // LAST_ERROR isolation through the C API
    if let Err(m) = last_error_isolated() {
        oracle.push(format!("C18:last-error {m}"));
    }
    let mut out = format!("{} len={} fnv={:016x} ev={}", reference.result.replace(' ', "_"), reference.out.len(), fnv(&reference.out), reference.events.len());
    if let Some(o) = oracle.first() {
        out.push_str(&format!(" ||ORACLE:{o}"));
    }
    out
}
