//! Lane `memts` (property C10): the REAL `TransformStream` in tag-scanning mode (nothing captured),
//! with a limiter created here; see lean/LolHtml/Lane/MemTs.lean for the format.
use super::memrw::PassThrough;
use crate::util::*;
use lol_html::errors::RewritingError;
use lol_html::{
    AsciiCompatibleEncoding, SharedMemoryLimiter, TokenCaptureFlags, TransformStream,
    TransformStreamSettings,
};
use std::cell::Cell;
use std::panic::{AssertUnwindSafe, catch_unwind};
use std::rc::Rc;

pub fn run(line: &str) -> String {
    let f: Vec<&str> = line.split(' ').filter(|s| !s.is_empty()).collect();
    if f.len() != 3 {
        return "bad-case".into();
    }
    let (Ok(max), Ok(prealloc)) = (f[0].parse::<usize>(), f[1].parse::<usize>()) else {
        return "bad-case".into();
    };
    let Some(chunks) = f[2].split(',').map(of_hex).collect::<Option<Vec<_>>>() else {
        return "bad-case".into();
    };
    let limiter = SharedMemoryLimiter::new(max);
    let out = Rc::new(Cell::new(0usize));
    let out2 = out.clone();
    let made = catch_unwind(AssertUnwindSafe(|| {
        TransformStream::new(TransformStreamSettings {
            transform_controller: PassThrough(TokenCaptureFlags::empty()),
            output_sink: move |c: &[u8]| out2.set(out2.get() + c.len()),
            preallocated_parsing_buffer_size: prealloc,
            memory_limiter: limiter.clone(),
            encoding: AsciiCompatibleEncoding::utf_8(),
            next_encoding: Default::default(),
            strict: false,
            graceful_bail_out_on_memory_limit_exceeded: false,
            graceful_bail_out_on_content_handler_error: false,
        })
    }));
    let Ok(mut ts) = made else {
        return format!(
            "PANIC-new ||ORACLE:C10:constructor-panic TransformStream::new panics with prealloc={prealloc} max={max}"
        );
    };
    let mut s = format!("init=ok:{}", limiter.verif_current_usage());
    let mut oracle = None;
    let mut bytes_in = 0usize;
    for (i, c) in chunks.iter().enumerate() {
        bytes_in += c.len();
        match ts.write(c) {
            Ok(()) => {
                let usage = limiter.verif_current_usage();
                let retained = bytes_in - out.get();
                s.push_str(&format!(" ok:{usage}:{retained}:{}", out.get()));
                if oracle.is_none() && (usage > max || retained > max) {
                    oracle = Some(format!("exceeds-max write#{i} usage={usage} retained={retained} max={max}"));
                }
            }
            Err(RewritingError::MemoryLimitExceeded(_)) => {
                s.push_str(&format!(" err:{}:{}", limiter.verif_current_usage(), out.get()));
                break;
            }
            Err(_) => {
                s.push_str(" other-error");
                break;
            }
        }
    }
    if let Some(o) = oracle {
        s.push_str(&format!(" ||ORACLE:C10:{o}"));
    }
    s
}
