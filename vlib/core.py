"""Core of the /verif check pipeline (see DESIGN.md section 2.3).

check <ID>:
  1. translators: /repo sources -> lean/LolHtml/Gen/*.lean (rewritten only when content changes)
  2. lake build of the property's theorem modules + the driver   (proof obligations)
  3. axiom audit (#print axioms on every theorem of the property's Thm modules)
  4. cargo build of the Rust harness against /repo's working tree
  5. correspondence lanes: corpus first, then generated cases; model (Lean driver) vs implementation
  6. direct oracle verdicts reported by the harness on the same cases
  7. verdict + evidence file
"""
import fcntl
import hashlib
import importlib
import json
import os
import random
import re
import subprocess
import sys
import time

VERIF = os.path.dirname(os.path.dirname(os.path.abspath(__file__)))
REPO = os.environ.get("VERIF_REPO", "/repo")
LEAN = os.path.join(VERIF, "lean")
HARNESS = os.path.join(VERIF, "harness")
DRIVER_BIN = os.path.join(LEAN, ".lake/build/bin/driver")
HARNESS_BIN = os.path.join(HARNESS, "target/debug/verif_harness")
ALLOWED_AXIOMS = {"propext", "Classical.choice", "Quot.sound"}
FORBIDDEN_RE = re.compile(
    r"\bsorry\b|\badmit\b|^\s*axiom\s|native_decide|bv_decide|implemented_by|\bunsafe\s|maxHeartbeats\s+0"
)

ENV = dict(os.environ)
ENV["CARGO_NET_OFFLINE"] = "true"
ENV.setdefault("CARGO_TERM_COLOR", "never")


def log(msg):
    print(msg, flush=True)


class Lock:
    """Global build lock so that concurrent checks do not race in lake / cargo."""

    def __init__(self, name="build"):
        self.path = os.path.join(VERIF, f".{name}.lock")

    def __enter__(self):
        self.f = open(self.path, "w")
        fcntl.flock(self.f, fcntl.LOCK_EX)
        return self

    def __exit__(self, *a):
        fcntl.flock(self.f, fcntl.LOCK_UN)
        self.f.close()


def run(cmd, cwd=None, inp=None, timeout=None):
    t0 = time.time()
    p = subprocess.run(
        cmd, cwd=cwd, input=inp, capture_output=True, text=True, env=ENV, timeout=timeout
    )
    return p.returncode, p.stdout, p.stderr, time.time() - t0


# ------------------------------------------------------------------ translators


TRANSLATOR_NOTES = []  # soft notes of the last run_translators() call (not obligations)


def run_translators():
    """Regenerate every Gen file from the repo. Returns (ok, problems:list[str], files:dict)."""
    sys.path.insert(0, os.path.join(VERIF, "translate"))
    del TRANSLATOR_NOTES[:]
    problems = []
    files = {}
    for modname in ("dsl2lean", "tags2lean", "consts2lean", "globals2lean", "enc2lean"):
        path = os.path.join(VERIF, "translate", modname + ".py")
        if not os.path.exists(path):
            continue
        mod = importlib.import_module(modname)
        try:
            outs = mod.translate(REPO)  # dict relpath -> content
        except Exception as e:  # translator refuses: obligation broken
            problems.append(f"{modname}: {e}")
            continue
        for note in getattr(mod, "NOTES", []):
            TRANSLATOR_NOTES.append(f"{modname}: {note}")
        for rel, content in outs.items():
            dst = os.path.join(LEAN, "LolHtml", "Gen", rel)
            old = open(dst).read() if os.path.exists(dst) else None
            if old != content:
                os.makedirs(os.path.dirname(dst), exist_ok=True)
                with open(dst, "w") as f:
                    f.write(content)
            files[rel] = hashlib.sha256(content.encode()).hexdigest()[:16]
    return (not problems), problems, files


GEN_OF = {"dsl2lean": "Syntax", "tags2lean": "Tags", "consts2lean": "Consts", "globals2lean": "Globals", "enc2lean": "Encodings"}


def lean_import_closure(modules):
    """Transitive `import LolHtml.*` closure of the given Lean modules (by reading the sources)."""
    seen = set()
    todo = list(modules)
    while todo:
        m = todo.pop()
        if m in seen or not m.startswith("LolHtml"):
            continue
        seen.add(m)
        path = os.path.join(LEAN, *m.split(".")) + ".lean"
        try:
            src = open(path).read()
        except OSError:
            continue  # a Gen file that does not exist yet
        for mm in re.finditer(r"^import\s+(\S+)", src, re.M):
            todo.append(mm.group(1))
    return seen


def lane_modules(lanes):
    """Lean modules of the model side of the given lanes (from Lane/All.lean's registry)."""
    try:
        reg = open(os.path.join(LEAN, "LolHtml", "Lane", "All.lean")).read()
    except OSError:
        return []
    out = []
    for lu in lanes:
        if lu.get("impl_only"):
            continue
        m = re.search(r'\("%s",\s*([A-Za-z0-9_.]+)\.run' % re.escape(lu["lane"]), reg)
        if m:
            out.append("LolHtml.Lane." + m.group(1).split(".")[0])
        else:
            out.append("LolHtml.Lane.All")
    return out


def relevant_translator_problems(problems, P):
    """A translator that no longer recognises the source breaks exactly the properties whose theorems or
    lane models import the table it generates (e.g. the tag tables do not enter the memory theorems)."""
    closure = lean_import_closure(list(P["thm_modules"]) + lane_modules(P["lanes"]))
    rel = []
    for p in problems:
        t = p.split(":", 1)[0]
        gen = GEN_OF.get(t)
        if gen is None or ("LolHtml.Gen." + gen) in closure:
            rel.append(p)
    return rel


# ------------------------------------------------------------------ lean build + audit


def lean_decl_at(path, line):
    """Name of the theorem/def enclosing `line` of a Lean source file (best effort)."""
    try:
        src = open(path).read().split("\n")
    except OSError:
        return None
    for i in range(min(line, len(src)) - 1, -1, -1):
        m = re.match(r"\s*(?:private |protected |@\[[^\]]*\]\s*)*(theorem|lemma|def|example|instance|abbrev)\s+([^\s:({\[]+)?", src[i])
        if m:
            return (m.group(2) or "example") + f" ({os.path.basename(path)}:{i+1})"
    return None


def lake_build(targets):
    """Build targets; returns (ok, failing_decls, log_tail)."""
    rc, out, err, dt = run(["lake", "build"] + targets, cwd=LEAN)
    text = out + err
    if rc != 0 and not re.search(r"error: [^\s:]+\.lean:\d+", text):
        # no Lean error in the log: a worker was killed (memory pressure from concurrent builds) -- build again
        rc, out, err, dt2 = run(["lake", "build"] + targets, cwd=LEAN)
        text = out + err
        dt += dt2
    failing = []
    if rc != 0:
        for m in re.finditer(r"error: ([^\s:]+\.lean):(\d+):(\d+):\s*(.*)", text):
            path = m.group(1)
            if not os.path.isabs(path):
                path = os.path.join(LEAN, path)
            d = lean_decl_at(path, int(m.group(2)))
            item = f"{d or path}: {m.group(4)[:160]}"
            if item not in failing:
                failing.append(item)
        if not failing:
            failing.append("lake build failed: " + text[-400:].replace("\n", " | "))
    return rc == 0, failing, text[-3000:], dt


AUDIT_TEMPLATE = """import Lean
{imports}
open Lean in
#eval show CoreM Unit from do
  let env ← getEnv
  let mods := #[{modnames}]
  let mut names : Array Name := #[]
  for (n, ci) in env.constants.map₁.toList do
    match env.getModuleIdxFor? n with
    | some idx =>
      let m := env.header.moduleNames[idx.toNat]!
      if mods.contains m then
        match ci with
        | .thmInfo _ =>
          -- skip compiler-generated equation / unfolding lemmas (`f.eq_1`, `f.eq_def`, …): they are not obligations
          let auto := match n with
            | .str _ s => s.startsWith "eq_" || s.startsWith "match_" || s == "sizeOf_spec" || s.endsWith "_eq_1"
            | _ => false
          if !n.isInternal && !auto then names := names.push n
        | _ => pure ()
    | none => pure ()
  for n in names.qsort (fun a b => a.toString < b.toString) do
    let axs ← collectAxioms n
    IO.println s!"THM {{n}} AXIOMS {{axs.toList}}"
"""


def leanchecker(thm_modules):
    """Independent re-check of the compiled theorem modules by `leanchecker` (thorough tier)."""
    rc, out, err, dt = run(["lake", "env", "leanchecker"] + list(thm_modules), cwd=LEAN)
    return rc == 0, (out + err)[-400:].replace("\n", " | "), dt


def audit(thm_modules):
    """#print axioms for every theorem in the given modules; grep sources for forbidden constructs.
    returns (theorems: dict name->axioms, bad: list[str])."""
    os.makedirs(os.path.join(LEAN, "Audit"), exist_ok=True)
    tag = hashlib.sha256(" ".join(thm_modules).encode()).hexdigest()[:10]
    path = os.path.join(LEAN, "Audit", f"audit_{tag}.lean")
    with open(path, "w") as f:
        f.write(
            AUDIT_TEMPLATE.format(
                imports="\n".join("import " + m for m in thm_modules),
                modnames=", ".join("`" + m for m in thm_modules),
            )
        )
    rc, out, err, dt = run(["lake", "env", "lean", path], cwd=LEAN)
    thms = {}
    bad = []
    for line in out.split("\n"):
        m = re.match(r"THM (\S+) AXIOMS \[(.*)\]", line)
        if m:
            axs = [a.strip() for a in m.group(2).split(",") if a.strip()]
            thms[m.group(1)] = axs
            extra = [a for a in axs if a not in ALLOWED_AXIOMS]
            if extra:
                bad.append(f"{m.group(1)} depends on non-standard axioms {extra}")
    if rc != 0:
        bad.append("audit failed to run: " + (out + err)[-300:].replace("\n", " | "))
    # source grep over the whole Lean tree (comments stripped line-wise)
    for root, _, files in os.walk(os.path.join(LEAN, "LolHtml")):
        for fn in files:
            if not fn.endswith(".lean"):
                continue
            p = os.path.join(root, fn)
            in_block = False
            for i, l in enumerate(open(p), 1):
                s = l
                if in_block:
                    if "-/" in s:
                        in_block = False
                        s = s.split("-/", 1)[1]
                    else:
                        continue
                if "/-" in s and "-/" not in s.split("/-", 1)[1]:
                    in_block = True
                    s = s.split("/-", 1)[0]
                s = re.sub(r"/-.*?-/", "", s)
                s = s.split("--", 1)[0]
                if FORBIDDEN_RE.search(s):
                    bad.append(f"forbidden construct in {os.path.relpath(p, LEAN)}:{i}: {l.strip()[:80]}")
    return thms, bad, dt


# ------------------------------------------------------------------ harness build


def cargo_build():
    lock_src = os.path.join(REPO, "Cargo.lock")
    rc, out, err, dt = run(["cargo", "build", "--offline"], cwd=HARNESS)
    if rc != 0 and os.path.exists(lock_src):
        # lock file drift (repo manifest changed): refresh from the repo's lock and retry once
        import shutil

        shutil.copy(lock_src, os.path.join(HARNESS, "Cargo.lock"))
        rc, out, err, dt2 = run(["cargo", "build", "--offline"], cwd=HARNESS)
        dt += dt2
    return rc == 0, (out + err)[-3000:], dt


# ------------------------------------------------------------------ lanes


def run_sharded(binary, lane, cases, shards=16, timeout=3600):
    """Run `binary lane` over cases (one per line), sharded across processes. Returns list of lines."""
    if not cases:
        return []
    n = len(cases)
    shards = max(1, min(shards, (n + 49) // 50))
    per = (n + shards - 1) // shards
    procs = []
    for i in range(shards):
        chunk = cases[i * per : (i + 1) * per]
        if not chunk:
            continue
        p = subprocess.Popen(
            [binary, lane], stdin=subprocess.PIPE, stdout=subprocess.PIPE, stderr=subprocess.PIPE, text=True, env=ENV
        )
        procs.append((p, chunk))
    import threading

    results = [None] * len(procs)

    def work(k, p, chunk):
        try:
            out, err = p.communicate("\n".join(chunk) + "\n", timeout=timeout)
        except subprocess.TimeoutExpired:
            p.kill()
            out, err = p.communicate()
            err += "\nTIMEOUT"
        lines = out.split("\n")
        if lines and lines[-1] == "":
            lines.pop()
        if len(lines) < len(chunk):
            # process died (abort / stack overflow): mark the first unanswered case
            lines = lines + [f"CRASH rc={p.returncode} {err[-200:].strip()!r}"] + ["SKIPPED"] * (len(chunk) - len(lines) - 1)
        results[k] = lines[: len(chunk)]

    ths = [threading.Thread(target=work, args=(k, p, c)) for k, (p, c) in enumerate(procs)]
    for t in ths:
        t.start()
    for t in ths:
        t.join()
    out = []
    for r in results:
        out.extend(r)
    return out


ORACLE_SEP = " ||ORACLE:"


def split_oracle(line):
    """impl line -> (observation, [(prop, text)])"""
    parts = line.split(ORACLE_SEP)
    obs = parts[0]
    flags = []
    for p in parts[1:]:
        if ":" in p:
            pr, tx = p.split(":", 1)
        else:
            pr, tx = p, ""
        flags.append((pr.strip(), tx.strip()))
    return obs, flags


def load_lane(lane):
    sys.path.insert(0, os.path.join(VERIF, "gen"))
    return importlib.import_module(lane)


def corpus_cases(lane):
    d = os.path.join(VERIF, "corpus", lane)
    cases = []
    if os.path.isdir(d):
        for fn in sorted(os.listdir(d)):
            for l in open(os.path.join(d, fn)):
                l = l.rstrip("\n")
                if l and not l.startswith("#"):
                    cases.append(l)
    return cases


# ------------------------------------------------------------------ known findings


def load_known():
    p = os.path.join(VERIF, "known_findings.json")
    if not os.path.exists(p):
        return []
    return json.load(open(p))["findings"]


def match_known(known, prop, lane, case, text):
    for k in known:
        if k.get("status") != "known" or k["property"] != prop:
            continue
        m = k.get("match", {})
        if "lane" in m and lane not in (m["lane"] if isinstance(m["lane"], list) else [m["lane"]]):
            continue
        if "oracle_re" in m and not re.search(m["oracle_re"], text):
            continue
        if "case_re" in m and not re.search(m["case_re"], case):
            continue
        return k
    return None


# ------------------------------------------------------------------ evidence / replay


def write_json(path, obj):
    os.makedirs(os.path.dirname(path), exist_ok=True)
    tmp = path + ".tmp"
    with open(tmp, "w") as f:
        json.dump(obj, f, indent=1, sort_keys=True)
    os.replace(tmp, path)


def replay_path(prop, payload):
    h = hashlib.sha256(json.dumps(payload, sort_keys=True).encode()).hexdigest()[:12]
    return os.path.join(VERIF, "replays", f"{prop}-{h}.json")
