"""Per-property configuration of the check pipeline (which theorem modules, which lanes)."""

KERNEL = "Lean 4.33.0 kernel; axioms allowed: propext, Classical.choice, Quot.sound (audited per theorem on every run)"
TRANSLATORS = "translators /verif/translate/*.py (DSL/table extraction from /repo on every run)"
LANES = "Rust harness /verif/harness + Lean driver /verif/lean/Driver.lean + case generators /verif/gen (correspondence)"
RUSTC = "rustc/cargo: the harness build of /repo behaves like its source"

PROPS = {}


def prop(pid, thm_modules, lanes, rule, assumptions, trusted_extra=(), expected_theorems=None,
         level_text="", level_note="", technique="", design_ref="", claimed=True):
    PROPS[pid] = {
        "thm_modules": thm_modules,
        "lanes": lanes,
        "rule": rule,
        "assumptions": list(assumptions),
        "trusted_base": [KERNEL, TRANSLATORS, LANES, RUSTC] + list(trusted_extra),
        "expected_theorems": expected_theorems,
        "level_text": level_text,
        "level_note": level_note,
        "technique": technique,
        "design_ref": design_ref,
        "claimed": claimed,
    }


# pipeline self-test (not a property of lol-html; not in MANIFEST)
prop(
    "C00",
    ["LolHtml.Basic"],
    [{"lane": "echo", "n_quick": 50, "n_thorough": 500}],
    "hex round trip self-test",
    ["none"],
    claimed=False,
)

LEX_RULE = ("lane lex: documents from a grammar over an adversarial fragment alphabet (gen/lex.py: all tokenizer constructs, "
            "truncated constructs, text-mode elements, select/template/frameset, foreign content with integration points, odd "
            "attribute syntax, random bytes) x random cut sets (none / byte-wise / 1 / 2 / k cuts / repeated cuts = empty writes) x "
            "strict on/off x capture-flag schedules indexed by tag-event number (incl. attribute-info requests); a case is "
            "non-trivial when it reaches at least one tag/comment/doctype event; distinct = distinct case line")
MODEL_SCOPE = ("modelled by hand and tied by the lex lane (not verified against the Rust text): DSL macro semantics "
               "(state_machine/mod.rs, syntax_dsl/**), lexer and tag-scanner actions, tree-builder simulator, parser loop, "
               "dispatcher, transform stream, HtmlRewriter poisoning (lean/LolHtml/Model/{SM,TreeSim,Dispatcher,Stream}.lean); "
               "translated from the Rust text on every run: the tokenizer table, character classes, sequence literals, tag lists and hashes")

prop(
    "C01",
    ["LolHtml.Thm.C01", "LolHtml.Thm.C01_Total", "LolHtml.Thm.C01_Total_Lexer", "LolHtml.Thm.C01_Final", "LolHtml.Thm.Full"],
    [{"lane": "lex", "n_quick": 4000, "n_thorough": 200000},
     {"lane": "full", "n_quick": 2000, "n_thorough": 40000},
     {"lane": "pass", "n_quick": 3000, "n_thorough": 60000, "impl_only": True}],
    LEX_RULE + "; lane pass (implementation only): public HtmlRewriter in all 36 ASCII-compatible encodings, documents whose text the encoding round-trips, cuts anywhere incl. inside multi-byte characters, 6 observer handler sets",
    ["observing controller = tokens serialise to their raw bytes (the property's own round-trip exception for captured text), emission never disabled, nothing appended at document end",
     "C01_passthrough is conditional on all calls succeeding; C01_passthrough_total removes that for controllers that never fail and never request aux info (non-strict mode, bytes written <= memory limit), with one run hypothesis (no call panics at a U2 site); C01_passthrough_final discharges it with C15_no_panic_full's agreement theorem (decidable table side-condition RelexSide, true of the regenerated table), and C01_passthrough_total_lexer needs no table hypothesis for controllers that stay in lexer mode; C01_real instantiates the theorem at the full controller model (selector VM + handler dispatcher + edit model) with non-mutating scripts",
     MODEL_SCOPE],
    level_text=("Lean 4 theorem C01_passthrough: for EVERY tokenizer table, tag configuration, settings, observing controller "
                "(arbitrary capture-flag decision at every tag, i.e. arbitrary scanner/lexer switching), byte string and split into "
                "writes (empty writes included): if all calls succeed the sink bytes equal the bytes written; plus the per-write "
                "invariant sink ++ retained = written. Proved by a generic sink-preservation theorem over the DSL interpreter "
                "(Lemmas/Preserve) and a dispatcher tiling invariant (Lemmas/Tiling). C01_passthrough_total: for every table passing the "
                "kernel-checked C15 side-conditions, a never-failing observing controller, non-strict mode and input within the "
                "memory limit, EVERY write and the end return ok and the sink bytes equal the input (error provenance: parse can "
                "only fail by a panic at a U2 site), and C01_passthrough_final removes that last run hypothesis (U2 sites unreachable "
                "by C15_agreement): no hypothesis about the run is left. The model is tied to the code by the lex "
                "correspondence lane (model vs real TransformStream on generated cases) and the direct oracle sink == input."),
    level_note=("Trusted: Lean kernel (axioms propext, Quot.sound only), the hand-written model of the dispatcher/parser glue "
                "(checked by the lex lane, not proved equal to the Rust), the DSL/tag translators. Not covered: decode/encode "
                "round-trip of captured text (hypothesis), non-observing handlers (C07)."),
    technique="Lean 4 proof (invariant + generic preservation over the interpreter) + model/implementation correspondence lane",
    design_ref="DESIGN.md section 4 C01",
)



PKG_SCOPE = "model files of the package are hand-written transcriptions tied by the package's lane (see docs/pkg-*.md for the Rust line <-> Lean def table)"

prop(
    "C03",
    ["LolHtml.Thm.C03_Sim", "LolHtml.Thm.C03_Ref", "LolHtml.Thm.C03_Strict", "LolHtml.Thm.C03_Trace", "LolHtml.Thm.C03_TreeBuilder", "LolHtml.Thm.C03_TreeBuilderForeign", "LolHtml.Thm.Full2"],
    [{"lane": "hash", "n_quick": 3000, "n_thorough": 40000},
     {"lane": "lex", "n_quick": 3000, "n_thorough": 100000},
     {"lane": "h5", "n_quick": 3000, "n_thorough": 60000, "impl_only": True},
     {"lane": "tb", "n_quick": 3000, "n_thorough": 100000}],
    "lane tb (validates the SPEC, does not call lol-html): Spec.TreeBuilder — a Lean transcription of WHATWG 13.2.6 tree construction (all 23 insertion modes, foreign content, scopes, active formatting list with adoption agency; no DOM) — against html5ever 0.39's tree builder driven token by token through a DOM-less TreeSink: tokenizer feedback, CDATA flag and the WHOLE stack of open elements after every token, on token soup over every name the standard mentions / 23 mode-biased streams / foreign content / formatting / tables; six documented deviations of html5ever from the standard are explicit switches; lane h5 (implementation only): tag soup in the HTML namespace without svg/math (all text-mode elements, select/template/frameset/table, truncated constructs, case variants) and documents from a recursive well-nested foreign-content grammar, real HtmlRewriter (strict, all-observer and single-kind capture sets, random chunkings) vs the html5ever 0.39 tokenizer driven by its own tree builder (RcDom); lane hash: names over the hash alphabet, table names with case variants, length-limit and sentinel neighbourhood, bad bytes; "
    + LEX_RULE,
    ["the tree-construction stage IS formalised (Spec/TreeBuilder*.lean, validated against html5ever 0.39 by lane tb on 600 000 token sequences incl. the whole stack after every token; html5ever implements the 2025 'customizable select' text: Cfg.legacySelect = false is what is validated, the pre-2025 text with the two select modes only on select-free input) and the simulator is PROVED to agree with it: for ALL HTML-namespace token sequences (templates allowed) up to the first token met in a state where one of two decidable predicates on (spec state, guard state) holds — ColGroupInTemplate (in column group with a non-colgroup current node: F31's context) or GuardSelectStale (guard in a select state while the parser is back in a pre-body mode: F32's context) — (C03_tb_text_feedback_exact, C03_tb_guard_sound_exact); neither predicate can become true without a template start tag (C03_tb_exclusions_need_template), so on template-free input the agreement is unconditional (C03_tb_text_feedback_partial); both exclusions are necessary (evaluated witnesses = findings F31, F32). Foreign content: agreement on the well-nested island grammar with foreign names PlainF, HTML names isOrd and 28 void-like stand-alone tags (C03_tb_foreign_partial); outside it the spec yields findings F2, F11, F12, F28, F33-F36 as evaluated disagreements",
     "hypotheses of the tree-builder theorems: scripting enabled, current-standard select parsing, hash test = name test on the 125 names the standard mentions (agree_named, decided on the generated tag table)",
     "Ref tables (lean/LolHtml/Ref/Tags.lean) are hand-reviewed against the standard",
     "C03_parser_sim_trace is for pure lexer-mode runs (mixed scanner/lexer runs split the simulator step across the two machines: C06) and excludes runs dying in the three debug assertions of handle_tree_builder_feedback; the strict theorems need the table side-condition EmitsChecked (`?` on emit_tag / finish_tag_name), decided on the generated table",
     MODEL_SCOPE],
    level_text=("Lean 4 theorems over the translated tag tables and the simulator model: generated tables = reviewed reference "
                "(C03_tags_match_reference, kernel decide), every table hash is the hash of its name and hash equality is name "
                "equality for letter-initial names (C03_hash_injective, induction), exact characterisation of unhashable names, "
                "ambiguity-guard = recursive specification with the exact refusal condition (C03_guard_spec, C03_guard_err_iff), "
                "the tokenizer table regenerated from the DSL resolves, for every state, closing-quote value, last/non-last chunk and all 257 input classes, to the same arm (calls, ? flags, condition, target, look-ahead sequences, enter actions) as a reference table transcribed from WHATWG 13.2.5 with nine documented shape deviations (C03_table_matches_reference, 24 kernel decide steps + a soundness lemma; insensitive to arm order / #[inline] / numbering); simulator invariants for all tag sequences (stack never empty, cdata flag = foreign namespace, strict run = "
                "non-strict run when accepted), and the expected namespace at every tag of every derivation of a well-nested "
                "foreign-content grammar (C03_foreign_grammar, C03_foreign_doc), with proved counter-examples for the grammar's "
                "side conditions. At stream level (whole model: parser + dispatcher + transform stream + rewriter, any controller, "
                "any chunking): a strict run in which every call succeeds equals the non-strict run — results, sink log, "
                "dispatcher and controller state (C03_strict_eq_nonstrict_stream); a strict call that fails with ParsingAmbiguity "
                "does so exactly because the guard refuses a text-switching start tag in select / template-in-select / frameset "
                "context, otherwise the same call fails identically in non-strict mode (C03_strict_fails_only_on_guard), and a "
                "non-strict stream never reports ambiguity (C03_nonstrict_no_ambiguity); in lexer mode the parser's simulator is "
                "Sim.run over the emitted lexemes' events and every start tag is stamped with its trace entry's namespace "
                "(C03_parser_sim_trace, C03_lexer_stamps_expected carries the grammar theorem to the parser). "
                "Against a Lean transcription of the WHATWG tree-construction stage (Spec.TreeBuilder, validated against html5ever): "
                "for every HTML-namespace token sequence without template and without frameset-after-select, at every token the "
                "strict simulator accepts, lol-html's tokenizer switch = the standard's switch = the switch of that tag "
                "(C03_tb_text_feedback_partial/_gen), and a text-switching start tag accepted in strict mode is never ignored by "
                "the standard's tree builder (C03_tb_guard_sound_partial); on the well-nested island grammar simulator and "
                "standard agree tag by tag on namespaces (C03_tb_foreign_partial). EXACT for the HTML namespace: the agreement "
                "holds for all sequences up to the first state satisfying ColGroupInTemplate or GuardSelectStale, which need a "
                "template start tag to arise (C03_tb_text_feedback_exact, C03_tb_exclusions_need_template) — findings F31/F32 are "
                "the ONLY HTML-namespace failures. PARTIAL for foreign content: outside the proved class the statements are false "
                "(F2, F11, F12, F28, F33-F36 all come out of the spec as evaluated disagreements)."),
    level_note=("Trusted: Lean kernel; translators; the reviewed Ref tables; the model of the simulator (tied by lanes lex/hash). "
                "Spec.TreeBuilder is a hand transcription of WHATWG 13.2.6 (trusted as a reading of the standard, validated by lane tb). "
                "Not covered: a bisimulation 'equal resolution => equal runs' and formal lemmas for the nine shape deviations of the reference table."),
    technique="Lean 4 proof (kernel-evaluated table obligations + induction over tag sequences / grammar derivations) + correspondence lanes",
    design_ref="DESIGN.md section 4 C03",
)

prop(
    "C04",
    ["LolHtml.Thm.C04_VM", "LolHtml.Thm.C04_Pure", "LolHtml.Thm.Full", "LolHtml.Thm.Full3", "LolHtml.Thm.Full18", "LolHtml.Thm.Full19", "LolHtml.Thm.Full20"],
    [{"lane": "sel", "n_quick": 1500, "n_thorough": 20000},
     {"lane": "selpure", "n_quick": 2000, "n_thorough": 40000},
     {"lane": "full", "n_quick": 2000, "n_thorough": 40000}],
    "lane sel: selector sets printed from the model's AST grammar (type, *, #id, .class, six attribute operators with i/s, :nth-*, :not() with simple/compound/list/nested arguments, child and descendant combinators, lists) x tag-event scripts (mis-nested, stray end tags, voids, case variants, duplicate attributes, foreign self-closing, ESI) x cuts: model VM vs real HtmlRewriter hits, Spec.Css vs an independent Rust reference matcher, Lean printer vs the text fed to the real parser, predicted vs actual Ast dump; lane selpure: nth triples incl. extreme offsets, attribute operators x case flags x namespaces x empty operands, id/class/exists",
    ["END TO END on raw bytes (Thm/Full18-20): for lexer-mode configurations (a document-level text/comment/doctype handler) the controller state after a successful byte-level run of the whole model is ctlSteps over an extracted list of well-formed controller events (Full_events_lexer, Full_events_writes/_end), the controller's VM runs Vm.runAux on its tag events and the hits are exactly Spec.Css.run on them (C04_real, C04_real_lexer; C04_real_no_panic for every selector set); for configurations without text handlers the invocation log and the VM are the same for every chunking of a document (C04_real_chunk_independent(_log), via C02_chunk_invariance_R); the scanner-mode event list is a statement (Full_events_statement; C04_real_partial derives C04_real_statement from it)",
     "CSS text parsing (crates selectors/cssparser) is not modelled: the model starts from the component list; the lane compares the printed text and the Ast dump",
     "the :not() restriction of C04_vm_refines_css (arguments are single simple selectors or lists of them) is finding F3, proved necessary by C04_vm_refines_css_statement_false",
     "memory limiter, i32 overflow of a child counter after 2^31-1 siblings, more than 31 selectors are not modelled", PKG_SCOPE],
    level_text=("Lean 4 theorems: compiler-correctness style refinement C04_vm_refines_css — for every selector set whose :not() "
                "arguments are simple selectors (lists allowed) and every tag-event sequence, the matching VM (trie with "
                "predicate sharing, compiled address ranges, jumps, de-duplicated hereditary jumps, the three bail-out / "
                "recovery paths, stack with typed child counters) reports exactly the matches of CSS semantics on the tree the "
                "events induce; C04_independence; split evaluation and bail-out equivalence (C04_split_eval, C04_bailout_eq); "
                "counters = sibling indices (C04_counters); never panics; leaf functions: has_index on ALL i32 triples = the "
                "an+b definition (C04_nth), six attribute operators = CSS on all byte strings in both case modes (C04_attr_ops). "
                "The compound-negation flattening is refuted against the spec (known finding F3)."),
    level_note="Trusted: Lean kernel; model of selectors_vm/{ast,compiler,program,mod,stack,attribute_matcher}.rs tied by lanes sel and selpure through the public API; Spec.Css as the reading of CSS Selectors.",
    technique="Lean 4 proof (refinement VM ⊑ CSS semantics by invariant over open elements; bit-vector arithmetic for nth) + correspondence lanes",
    design_ref="DESIGN.md section 4 C04",
)

prop(
    "C05",
    ["LolHtml.Thm.C05_Scope", "LolHtml.Thm.Full", "LolHtml.Thm.Full3", "LolHtml.Thm.Full18", "LolHtml.Thm.Full19"],
    [{"lane": "scope", "n_quick": 2000, "n_thorough": 10000},
     {"lane": "full", "n_quick": 2000, "n_thorough": 40000},
     {"lane": "metacs", "n_quick": 2000, "n_thorough": 20000, "impl_only": True}],
    "lane metacs (implementation only): ASCII documents with <meta charset> / http-equiv tags anywhere, run with adjust_charset_on_meta_tag off and on (the setting registers an internal `meta` element handler in front of the user's, shifting every handler index): the user's element / end-tag / comment / text handler invocations and the sink bytes must be identical; lane scope: tag-event scripts (unclosed, mis-nested, void, foreign self-closing, removed content) x handler registrations (element/text/comments/end-tag/document) x cuts, real HtmlRewriter with logging handlers vs the model",
    ["END TO END on raw bytes (Thm/Full19): C05_real — for lexer-mode configurations the event list of the byte-level run has a trace in which every event is one Controller.step of the scope model on the real controller's state, every event's invocations equal Spec.Scope.expected for the elements open before it and the open elements evolve by openStep (text/comment handlers with a selector receive exactly the tokens delivered while a matched element is open; end-tag handlers run at the end-tag event that pops their element and never again); scanner mode: C05_real_partial from Full_events_statement",
     "the matcher is an arbitrary function from start tags to sets of registered match ids (WfEvents); that the VM returns only registered ids is C04's; the link is Thm/Full3: every protocol event of the real controller model that ends without error is exactly one Controller.step of this package's model on the projected state (Full_refines_scope_start/_end/_other), its handler invocations are Spec.Scope.expected (Full_event_C05), and the VM inside follows selvm's Vm.step (Full_vm_run) — lexer-mode calls; scanner hints rely on C06's relex agreement",
     "handler/memory errors and ESI tags are not modelled in package scope (lane full covers failing handlers; lane sel covers ESI); the meta-charset handler's id shift is covered by the implementation-only lane metacs", PKG_SCOPE],
    level_text=("Lean 4 theorems, for every handler script, registration, event list and matcher: the controller model refines a "
                "reference scope specification (C05_refines), user counts equal the number of open matched elements "
                "(C05_refcount), text/comment/doctype delivery iff in scope (C05_scope_*), per-token order = registration order "
                "with selector-scoped first (C05_order), end-tag closures run exactly once at the closing end tag "
                "(C05_end_tag_*), end handlers once after all input (C05_end_once), no counter underflow (C05_no_panic)."),
    level_note="Trusted: Lean kernel; model of handlers_dispatcher.rs / rewrite_controller.rs tied by lane scope.",
    technique="Lean 4 proof (refinement to an abstract scope spec by invariant) + correspondence lane",
    design_ref="DESIGN.md section 4 C05",
)

prop(
    "C08",
    ["LolHtml.Thm.C08_Escape", "LolHtml.Thm.C08_Real", "LolHtml.Thm.C08_Codec", "LolHtml.Thm.C08_Encodings"],
    [{"lane": "esc", "n_quick": 3000, "n_thorough": 30000}],
    "lane esc: body text / attribute values / comment text / attribute names / tag names biased to <>&\"'-!/= whitespace NUL comment terminators non-BMP unmappable; utf-8 and x-user-defined; `attrseq` cases: two set_attribute calls with multi-byte names in Shift_JIS / Big5 / GBK / UTF-8 (encoded name verified against encoding_rs)",
    ["encodings: C08 holds for ALL 36 ASCII-compatible encodings (Thm/C08_Encodings: one theorem over the 28 single-byte tables regenerated from the pinned encoding_rs, x-user-defined, UTF-8, and the WHATWG encoder algorithms of EUC-KR, Big5, Shift_JIS, EUC-JP, GBK, gb18030 for every index): no non-ASCII scalar encodes to a byte of HtmlStruct (every byte below 0x40 that is not a digit — contains every tokenizer-special byte and every byte of the extracted reject lists and closing sequences; gb18030's digit trail bytes are why the plain 0x40 law fails there: gb18030_not_structSafe). Assumed: encoding_rs implements those tables / WHATWG algorithms (lane + oracle)",
     "known finding F22: names are compared ASCII-case-insensitively on the ENCODED bytes (Shift_JIS/Big5/GBK trail bytes): duplicate attributes / debug_assert; C08_F22_counterexample",
     "escape maps, reject lists and closing sequences are re-extracted from the Rust text on every run (translate/consts2lean.py); 20 side-conditions by decide", PKG_SCOPE],
    level_text=("Lean 4 theorems on the generated constants: escaped body text contains no < > and only complete entities and "
                "decodes back (C08_body_no_markup), is one data-state run (C08_body_text_run); attribute values contain no "
                "double quote; set_text accepts iff the WHATWG comment machine ends exactly at the final --> (C08_comment_iff, "
                "necessary and sufficient); accepted tag/attribute names read back whole and each rejected byte splits a name "
                "(C08_tag_name_iff, C08_attr_name_*); an accepted attribute re-parses as exactly one attribute "
                "(C08_attribute_reads_back); setters leave the token unchanged on error (C08_reject_unchanged_*). ON THE REAL LEXER "
                "MODEL (generated table, recording sink, any prefix and any following input): escaped text is exactly one text "
                "lexeme (C08_text_real), an accepted tag name / attribute serialises to exactly one start-tag lexeme whose name "
                "and value ranges hold exactly the given bytes (C08_tagname_real, C08_attr_real), accepted comment text gives "
                "exactly one comment lexeme with text range = the text (C08_comment_real) and rejected text ends the comment "
                "early (C08_comment_real_early); codec-generic versions for lawful structure-safe codecs (C08_*_codec), instantiated "
                "for all 36 supported encodings (C08_single_byte_encodings over the generated tables, C08_x_user_defined, C08_utf8, "
                "C08_euc_kr, C08_big5, C08_shift_jis, C08_euc_jp, C08_gbk, C08_gb18030; encodings_covered)."),
    level_note="Trusted: Lean kernel; consts + DSL translators; small specs of the WHATWG comment / tag-name / attribute states (round 1); the real-lexer theorems use the core model tied by lane lex.",
    technique="Lean 4 proof (list induction; decidable side-conditions on translated constants) + correspondence lane + re-tokenising oracle",
    design_ref="DESIGN.md section 4 C08",
)

prop(
    "C10",
    ["LolHtml.Thm.C10_Memory"],
    [{"lane": "mem", "n_quick": 3000, "n_thorough": 20000},
     {"lane": "memts", "n_quick": 2000, "n_thorough": 10000},
     {"lane": "memrw", "n_quick": 600, "n_thorough": 6000, "impl_only": True}],
    "lane mem: op sequences on the real Arena + LimitedVec<T> (item sizes 1/8/7/24/512) sharing one limiter; memts: TransformStream write protocol; memrw (impl only): limit sweeps over buffer-growing inputs on HtmlRewriter/TransformStream",
    ["Vec::try_reserve_exact yields exactly the requested capacity; the allocator does not fail",
     "memory that the limiter is never told about (element-name copies in the open-element stack, decoder-held bytes, attribute outlines) is outside the model: see known findings", PKG_SCOPE],
    level_text=("Lean 4 theorems over arbitrary operation lists: usage = arena.cap + vec.cap*itemSize + failed charges "
                "(C10_accounting), for EVERY preallocation size (clamped to the limit) while all ops succeeded usage <= M hence retained input <= M "
                "(C10_bound, C10_bound_held), the exceeding op returns the error and never panics incl. checked_mul overflow "
                "(C10_error_not_panic), success is monotone in M with the same results and buffered bytes (C10_monotone, by a "
                "simulation relation), results are a function of (M, prealloc, itemSize, ops); "
                "for the TransformStream write protocol: bytes in = bytes out + retained, retained <= M (C10_write_retention)."),
    level_note="Trusted: Lean kernel; model of memory/*.rs and the write() buffer protocol tied by lanes mem/memts (hooks VerifArena/VerifLimitedVec).",
    technique="Lean 4 proof (invariant by induction over operation lists) + correspondence lanes + limit-sweep oracle",
    design_ref="DESIGN.md section 4 C10",
)

prop(
    "C13",
    ["LolHtml.Thm.C13_Encoding", "LolHtml.Thm.C13_Tables", "LolHtml.Thm.C13_Whatwg"],
    [{"lane": "enc", "n_quick": 3000, "n_thorough": 21000},
     {"lane": "pass", "n_quick": 3000, "n_thorough": 40000, "impl_only": True}],
    "lane pass (implementation only, shared with C01/C02): public HtmlRewriter in all 36 encodings, documents with text the encoding round-trips (U+FEFF inside text where encodable), tag names with non-ASCII characters whose trail bytes fall into A-Z / a-z in the legacy multi-byte encodings; oracle here: tag_name() / EndTag::name() equal the ASCII-lower-cased decoded preserve-case names; lane enc: decoder feeds with arbitrary splits — all 36 encodings on BOTH sides (UTF-8, x-user-defined and the 28 single-byte encodings from tables regenerated out of the pinned encoding_rs source; the 6 legacy multi-byte encodings as WHATWG state machines over index facts carried by the case, obtained from the real encoding_rs through harness sub-lane decq), text > 1 KiB, malformed bytes, encoder, UTF-8 resync, meta charset positions (labels resolved through the generated label table), non-ASCII-compatible refusal",
    ["single-byte / x-user-defined / UTF-8: the codec laws are theorems about the pinned crate's own tables (C13_Tables); assumed: encoding_rs' coder is that table lookup (lane-checked chunk by chunk)",
     "legacy multi-byte: the streaming laws are theorems for every index (C13_Whatwg); assumed: encoding_rs implements the WHATWG machine over the WHATWG index data (machines lane-checked against it with its own index facts; index data and multi-byte encoders only oracle-checked)",
     "known finding F16 (encoding_rs drops a pending lead byte on an empty feed; reachable through the hook only) shows as a model/implementation disagreement of exactly that shape, excluded from the diff by gen/enc.py project and tagged by the oracle",
     "decoder buffer >= 4, encoder buffers >= 14 (real: 1024 / 63 / 4096)", PKG_SCOPE],
    level_text=("Lean 4 theorems for every lawful codec, buffer size and split: concatenated handler text = whole decode, exactly "
                "one last_in_text_node chunk, chunk source ranges contiguous and covering the node (C13_decoder, C13_ranges); fast path = slow path "
                "(C13_fastpath); encoder output = per-scalar encoding or NCR, independent of buffer sizes (C13_encoder); UTF-8 "
                "resync safety (C13_resync_safe/rejects, liveness partial); meta charset: at most one change, effective after "
                "the tag, sink notified first (C13_meta). The laws are PROVED for UTF-8, x-user-defined and all 28 single-byte "
                "encodings from the crate's own tables (decidable TableOk per table => Lawful, StructSafe, encode = inverse of decode, "
                "unmapped -> NCR: C13_tables) and for the WHATWG decoders of EUC-KR, Big5, Shift_JIS, EUC-JP, gb18030/GBK for every "
                "index (C13_Whatwg: *_lawful, pending <= 3 bytes, C13_whatwg_streaming). PARTIAL only in: encoding_rs = these tables / "
                "machines (lane), multi-byte index data and encoders (oracle)."),
    level_note="Trusted: Lean kernel; translator enc2lean (tables, labels, is_ascii_compatible of the pinned encoding_rs; cross-checks lol-html's two encoding lists against it); model of text_decoder.rs / text_encoder.rs / flush_encoding_change tied by lane enc (hook VerifTextDecoder); the transcription of the WHATWG Encoding Standard decoders (Model/Whatwg.lean).",
    technique="Lean 4 proof (abstract codec laws + induction over feeds) + correspondence lane + whole-buffer encoding_rs oracle",
    design_ref="DESIGN.md section 4 C13",
)


prop(
    "C11",
    ["LolHtml.Thm.C11", "LolHtml.Thm.C11_General", "LolHtml.Thm.C11_General_End", "LolHtml.Thm.Full", "LolHtml.Thm.Full16", "LolHtml.Thm.Full17", "LolHtml.Thm.Full26", "LolHtml.Thm.Full27"],
    [{"lane": "fault", "n_quick": 4000, "n_thorough": 100000},
     {"lane": "full", "n_quick": 2000, "n_thorough": 40000},
     {"lane": "proto", "n_quick": 5000, "n_thorough": 100000, "impl_only": True}],
    LEX_RULE + "; lane fault = lane lex plus a handler failure injected at token index 1..8, graceful flags, memory limit and preallocation sweeps (model vs real TransformStream); lane proto (implementation only): public HtmlRewriter in all 36 encodings with end / bail-out content, token mutations with empty strings, a failure injected at handler invocation index 1..11 or by memory limit, graceful flags on/off, preallocation sizes, cuts anywhere: byte preservation and bail-out handler count",
    ["REAL controller, unconditional (Thm/Full17, Full26, Full27): Full_real_eq_clean — for every configuration, settings record and chunking the complete run write* ; end of the whole model with the real controller EQUALS the run with the cleaned controller, states and results, failures included (the earlier internal-class alternative is removed: RelQ.parse_eq_of_agree, two sinks that agree on every invariant state parse identically for both directives); hence C11_bailout_general_real_all and C11_bailout_general_end_real_all: the bail-out shape for the real controller for EVERY error (handler errors included), with no hypothesis about the run; C14_ranges_real_all (Thm/Full28, registered under C14): the source ranges logged by the REAL controller are well-formed, ordered and disjoint for every configuration, settings record and chunking, no run hypothesis (Full_real_eq_clean_HL: the logged real and cleaned runs are equal, log included)",
     "the exact sink CONTENT (written.take j ++ handler output ++ written.drop j) is proved for observing controllers (handlers that inspect and may FAIL at any invocation but do not mutate); for arbitrary controllers (rewriting, removing, failing) C11_bailout_general proves the shape: log at failure ++ bail-out handler output ++ the unemitted rest of the input from remaining_content_start, unmodified; the end() variant is C11_bailout_general_end (an end-handler failure is not guarded by should_bail_out_for: no bail-out handler runs, as coded); for the REAL controller model C11_bailout_general_real (Thm/Full16) gives the exact sink log at a failing write whose error is not the handler error (e.g. the memory limit), through Full_real_eq_clean_of_no_handler (real and cleaned write* runs coincide when no write returns the handler error)",
     "an end-handler failure happens after every received byte was emitted; the bail-out handlers are not run then (as coded and as the repository's own test expects)",
     MODEL_SCOPE],
    level_text=("Lean 4 theorem C11_bailout_write: for every table, flag schedule, chunking, memory limit and preallocation, "
                "when a write fails (handler error at any token, Arena::append, Arena::init_with, parser) after successful "
                "writes, the sink holds written.take j ++ bail-out-handler output ++ written.drop j with the matching flag "
                "(handlers ran exactly once), and the prefix written.take j without it (no handler ran); C11_flags: each flag "
                "recovers only its own kind, ambiguity never; C11_no_bailout_on_success. Built on the C01 tiling invariant, "
                "which holds at the moment of the error. C11_bailout_general: for EVERY controller returning only handler-class "
                "errors (it may rewrite, remove or fail) and every table passing the C15 side-conditions, a failing write leaves "
                "log-at-failure ++ bail-out output ++ flush(input from the watermark k, k <= |retained ++ data|) with the "
                "matching flag (two flushed slices only when Arena::append itself failed), and exactly log-at-failure without it; "
                "the rewriter is poisoned either way."),
    level_note="Trusted: Lean kernel; model of transform_stream/{mod,dispatcher}.rs and memory/arena.rs (lanes lex, mem, memts).",
    technique="Lean 4 proof (tiling invariant holds at every failure point) + correspondence lanes",
    design_ref="DESIGN.md section 4 C11",
)

prop(
    "C12",
    ["LolHtml.Thm.C12", "LolHtml.Thm.C12_Prefix", "LolHtml.Thm.Full", "LolHtml.Thm.Full2"],
    [{"lane": "fault", "n_quick": 4000, "n_thorough": 100000},
     {"lane": "full", "n_quick": 2000, "n_thorough": 40000},
     {"lane": "proto", "n_quick": 5000, "n_thorough": 100000, "impl_only": True}],
    LEX_RULE + "; lane fault = lane lex plus injected failures and memory limits; lane proto (implementation only): as for C11, checking the sink-call log against the protocol automaton (encoding first, zero-length chunk exactly once and last on success, never on failure, use after error panics silently)",
    ["content written by end / bail-out handlers goes through the text encoder and is never an empty slice (CleanEnds; the encoder fact is C13_encoder)",
     "'prefix of the failure-free run' is proved for memory-limit failures (C12_prefix: the same history under a limit that fails vs a limit >= the bytes written, bail_out_on_memory_limit off); for handler failures the failure-free run is a different controller, so only monotonicity (C12_monotone) and the exact content (C11) are proved",
     MODEL_SCOPE],
    level_text=("Lean 4 theorems for EVERY controller (mutating ones included), table, chunking and failure point: the sink log "
                "is the encoding notification, then events none of which is a zero-length chunk, then the zero-length chunk iff "
                "end() succeeded and then last (C12_protocol); a failed call poisons the rewriter and every later call is the "
                "documented panic with the log unchanged (C12_fail_stop, C12_error_poisons); no call retracts output "
                "(C12_monotone); a run that fails on the memory limit has emitted a prefix (log and bytes) of what the same "
                "history emits under a sufficient limit, at the same call and at any later point (C12_prefix, a simulation "
                "relating the two streams up to cap/usage/max)."),
    level_note="Trusted: Lean kernel; model of rewriter/mod.rs guarded!, transform_stream, dispatcher (lane lex).",
    technique="Lean 4 proof (generic sink-preservation over the interpreter + monotone log invariant) + correspondence lane",
    design_ref="DESIGN.md section 4 C12",
)

prop(
    "C17",
    ["LolHtml.Thm.C17_CApi"],
    [{"lane": "capi", "n_quick": 1500, "n_thorough": 20000}],
    "lane capi: mirrored handler scripts executed through the real extern C entry points and through the Rust API (18 op shapes, streaming handlers, Stop at handler indices, invalid UTF-8, leaks, API call orders allowed by lol_html.h)",
    ["pointer-level memory safety of the unsafe blocks and unwinding across extern C are not modelled",
     "the Rust API is an abstract state machine R; C-run = R-run is proved per entry point (unit level), whole-run sink equality is checked by the lane", PKG_SCOPE],
    level_text=("Lean 4 theorems over an ownership-ledger model of c-api/src for every R, handler program and call history: "
                "handles never reused, freed objects never touched (C17_ownership_ledger), drop callback exactly once "
                "(C17_drop_callback_once), end takes the inner value and free afterwards is a no-op on it, invalid UTF-8 never "
                "reaches R, Ok/Err map to 0/-1 with LAST_ERROR set on the calling thread (C17_failure_sets_last_error), each "
                "entry point = decode; call R; encode (C17_wrapper_unit); every -1/NULL of every entry point sets LAST_ERROR incl. the streaming rejections (C17_unit_failure_sets_last_error, C17_streaming_failure_reported). The full header-precondition safety statement is "
                "REFUTED on the attribute-iterator history (known finding) and proved under the strengthened policy. PARTIAL."),
    level_note="Trusted: Lean kernel; ledger model of c-api/src/*.rs and lol_html.h tied by lane capi.",
    technique="Lean 4 proof (invariant over call histories of an ownership ledger) + correspondence lane",
    design_ref="DESIGN.md section 4 C17",
)

prop(
    "C18",
    ["LolHtml.Thm.C18_Isolation", "LolHtml.Thm.C18_Threads", "LolHtml.Thm.C18_ThreadsCore", "LolHtml.Thm.C18_ThreadsCApi"],
    [{"lane": "capi", "n_quick": 800, "n_thorough": 10000},
     {"lane": "thr", "n_quick": 300, "n_thorough": 3000, "impl_only": True}],
    "lane thr (impl only): the same rewrite on N threads with random yields, a send::HtmlRewriter migrated after every write, concurrent selector parsing, LAST_ERROR across threads; lane capi as for C17",
    ["INTERLEAVINGS (Model/Threads*.lean, Thm/C18_Threads*): a world of instances, per-thread slots and one value per item of the regenerated globals list, in which every mutable shared item may be changed ADVERSARIALLY by any step; for EVERY schedule (list of (thread, op) incl. create / write / end / free / migration of an instance to another thread / C-API calls / selector parsing), under the kernel-decided side-condition that the regenerated list has no mutable shared item (C18_threads_side_condition), each instance's observations equal those of its own op subsequence run alone (C18_interleaving_projection, C18_sequential_prediction = what lane thr compares real threads with), two schedules with the same per-instance subsequences agree (C18_schedule_independent), LAST_ERROR read by thread t depends only on t's own calls (C18_last_error_thread_local/_own_calls/_frame); instantiated with the real core model (C18_core_interleaved_rewrite: results, sink and event log = C01.run in any schedule; C18_core_repeat) and with the C-API model, one session per instance (capiThreadParametric, C18_capi_sessions, C18_capi_last_error); the theorems FAIL without the side-condition (C18_projection_fails_with_shared_counter, C18_migration_fails_with_thread_local_cache); assumed: atomicity at API-call granularity, no globals inside dependencies (lane thr samples), sessions do not share a C-API Env",
     "data races / memory ordering are not modelled; real threads are exercised by lane thr only",
     "the list of global items is re-extracted from every *.rs under src/ and c-api/src/ on every run (translate/globals2lean.py)", PKG_SCOPE],
    level_text=("Lean 4 theorems: the generated list of global items has no mutable item in the core crate and only the "
                "thread-local LAST_ERROR in the C API (C18_no_globals, by decide on the list re-extracted from the sources); "
                "an operation by thread t changes only slot t and take returns the latest error of the same thread "
                "(C18_last_error_isolated, C18_take_latest); a run is a function of (policy, program, calls). Interleavings: for every "
                "schedule of threads over instances (creation, writes, end, free, migration between threads, C-API calls), under "
                "the decided side-condition that the regenerated globals list has no mutable shared item, each instance's "
                "observations equal those of its own operations run alone and LAST_ERROR of a thread depends on its own calls only "
                "(C18_interleaving_projection, C18_schedule_independent, C18_last_error_thread_local), instantiated with the real "
                "rewriter model (C18_core_interleaved_rewrite) and the C-API model (C18_capi_sessions). PARTIAL: steps are atomic at "
                "API-call granularity; data races inside a call and globals of dependencies are outside the model."),
    level_note="Trusted: Lean kernel; globals translator; ledger model (lane capi); real threads only sampled (lane thr).",
    technique="Lean 4 proof (decidable obligation on the translated global-items list + non-interference by induction over arbitrary thread schedules with adversarial mutable globals + per-thread slot invariant) + thread lane",
    design_ref="DESIGN.md section 4 C18",
)


prop(
    "C07",
    ["LolHtml.Thm.C07_Edit", "LolHtml.Thm.Full"],
    [{"lane": "edit", "n_quick": 2500, "n_thorough": 30000},
     {"lane": "full", "n_quick": 2000, "n_thorough": 40000}],
    "lane edit: documents built from a token-level grammar (well-formed tags with attributes, end tags, comments, text, doctype; nested / unclosed / stray / void / foreign self-closing elements) x cut positions x handler scripts (selector restricted to type selectors and *, all Element / start_tag / end_tag / comment / text / doctype / document-end operations with arbitrary strings, both content types, streaming handlers, several handlers per token, on_end_tag): real HtmlRewriter output vs model, documented output (Spec.EditDoc) vs an independent Rust reference editor",
    ["the token stream is an input of the model (the parser is C01/C02/C16's subject); selectors beyond type selectors and * are C04's",
     "the whole-document theorem is for CLEAN runs: no element with visible end-region edits is closed implicitly or left open at end of input (outside: known findings F24, F25, refuted by proved counter-examples)",
     "UTF-8 documents (escaping/encoding of inserted content is an abstract function enc; C08/C13 own it)", PKG_SCOPE],
    level_text=("Lean 4 theorems, universal over operation scripts, tokens and handler sets: serialising an edited token = "
                "before1..n ++ (own bytes | last replacement | nothing) ++ after m..1 for every token kind (C07_token_edit); "
                "untouched attributes keep raw bytes and order, touched ones are name=\"escaped\", last set/remove wins "
                "(C07_attrs_*); every Element method = its documented edit of the regions before / start tag / prepended / "
                "inner / appended / end tag / after, incl. no-ops when the element cannot have content (C07_element_ops); the "
                "emission switch: nothing between a start tag with removed content and its closing end tag reaches the sink, "
                "emission resumes exactly there (C07_removed_content_*); whole document: for every clean run the sink equals "
                "Spec.EditDoc.rewrite by a simulation proof (C07_output_eq_edit_spec). The unconditional statement is refuted "
                "on implicit-close / unclosed-at-EOF shapes (known findings)."),
    level_note="Trusted: Lean kernel; model of rewritable_units/{mutations,element,tokens/*}.rs and the removed-content logic tied by lane edit; Spec.EditDoc as the reading of the API documentation.",
    technique="Lean 4 proof (algebraic laws of mutations + simulation to a document-edit specification) + correspondence lane + reference editor",
    design_ref="DESIGN.md section 4 C07",
)


prop(
    "C15",
    ["LolHtml.Thm.C15_Core", "LolHtml.Thm.C15_Full", "LolHtml.Thm.C15_Linear", "LolHtml.Thm.Full", "LolHtml.Thm.Full3", "LolHtml.Thm.Full4", "LolHtml.Thm.Full5", "LolHtml.Thm.FullIds", "LolHtml.Thm.FullPay", "LolHtml.Thm.C15_Args", "LolHtml.Thm.Full6", "LolHtml.Thm.Full7", "LolHtml.Thm.Full8", "LolHtml.Thm.Full9", "LolHtml.Thm.Full10", "LolHtml.Thm.Full11", "LolHtml.Thm.Full12", "LolHtml.Thm.FullGuardW", "LolHtml.Thm.FullGuardX", "LolHtml.Thm.Full13", "LolHtml.Thm.Full14", "LolHtml.Thm.Full15", "LolHtml.Thm.Full16", "LolHtml.Thm.Full17", "LolHtml.Thm.Full23", "LolHtml.Thm.Full25", "LolHtml.Thm.Full26"],
    [{"lane": "lex", "n_quick": 4000, "n_thorough": 200000},
     {"lane": "fault", "n_quick": 3000, "n_thorough": 60000},
     {"lane": "full", "n_quick": 2000, "n_thorough": 40000},
     {"lane": "patho", "n_quick": 240, "n_thorough": 400, "impl_only": True}],
    LEX_RULE + "; every lane of the harness runs in a build with overflow checks and debug assertions, each case under catch_unwind (a panic is an observation `PANIC …`, compared with the model which makes every panic site explicit); lane patho (implementation only): pathological shapes (deep nesting, one giant tag name / attribute list / attribute value / comment / doctype, '<' and '</' runs, foreign content, script escapes, select, CDATA, random markup bytes, hundreds of selectors, random selector strings) at sizes up to 4*10^6 bytes, in one write and in 4 KiB writes, with a deterministic work oracle (bytes handed to Parser::parse, counted by a hook, <= 2*len + 4 KiB) and a hard CPU bound",
    ["covers the parser / dispatcher / transform-stream core; panics in selectors/cssparser/encoding_rs/std and in the packages' own scopes (selector VM: C04_vm_never_panics; handlers: C05_no_panic; memory: C10_error_not_panic; nth: C04_nth_total) are those packages' theorems",
     "the two former open sites (U2: 'Tag should be a start tag at this point', RequestLexeme callback assertion) are closed by C15_no_panic_full at the cost of one more decidable table side-condition RelexSide (HeadOk, RelexOk, TextTypeOk, PhaseOk: the token-kind agreement between scanner and re-lexing lexer is a property of the table), decided on the regenerated table on every run",
     "CtlClean quantifies over all controller states; the real controller model (Model/Full) satisfies it only on states reachable in runs (Full_not_ctlClean: the aux-info continuation without a pending request is rewrite_controller.rs's 'vm req without vm' branch) — no callback-closed state invariant can repair this (Full_ctlClean_unattainable: a call ORDER the dispatcher never produces reaches the stale-locator debug_assert in HandlerVec::inc_user_count; Full_no_state_invariant_suffices), so C15_no_panic_full does not instantiate at the real controller as stated. Proved instead (Thm/Full3, Full_no_panic_protocol): along every protocol-conforming event sequence from the initial state of ANY configuration the controller ends fault-free in the joint invariant (typing, scope Inv, selector-VM SemInv), stops with a content-handler error, or stops at one of three residual glue sites (attribute raw slice out of range, token range before the slice base, end-tag payload missing); every VM panic, dispatcher locator / match-id / refcount panic, stack desynchronisation and 'vm req without vm' is excluded. Round 3 (Thm/Full4): every lexer-mode dispatcher operation (handle_tag, handle_non_tag_content, handle_end) from an idle dispatcher state is protocol-conforming and ends idle again or fails with a content-handler error / one of three named glue sites / a dispatcher slice check (Full_handleTag_lexer, Full_handleNonTag_lexer, Full_handleEnd_lexer; the `token range before slice base` site is eliminated); with the CLEANED controller (panic-class callback errors mapped to handler errors) the whole model never panics (Full_clean_no_panic), and the real run equals the cleaned run call by call up to the first panic-class callback error (Full_writes_agree_or_panic): parser, dispatcher and stream add no panic site of their own. Round 4 (Thm/Full5): Full_no_panic_lexer_allowed — for EVERY configuration with a document-level text / comment / doctype handler (the parser never enters scanner mode), settings, input and chunking, every call of the whole rewriter model with the REAL controller returns ok, a handler / memory / ambiguity error, the documented use-after-error panic, or a panic at one of TWO named glue sites (rAttr: attribute raw range outside the tag's raw range; rMatcher: attribute name/value slice out of range) — parser, stream, dispatcher (incl. its own slice checks), selector VM, handler vectors and the other glue sites are excluded; Round 5 (Thm/C15_Args, Thm/Full6): the two lexeme facts are THEOREMS for arbitrary sinks — C15_parse_args_valid: for every table passing WfTable, the token-part certificate, the NEW attribute-raw-range certificate checkRaw (a flow-sensitive analysis: an attribute started but not yet named has raw range 0..0 and must never be pushed; a table dropping finish_attr_name from one arm passes the old certificates and fails this one, witness self_closing_start_tag_state) and EmitsChecked, every sink, input and chunking, every tag lexeme handed to handle_tag has its attribute name / value / raw ranges inside the lexeme and the input, up to the first error — hence Full_rAttr, Full_rMatcher and Full_no_panic_lexer: in lexer-mode configurations NO call of the whole rewriter model with the REAL controller (any selectors, mutating / removing / failing scripts, any settings, input and chunking) returns a panic- or internal-class error. Scanner mode for the real controller: Thm/Full7 reduces Full_no_panic_statement to two named hypotheses (Full_no_panic_partial'): an operation-level one (the two hint operations and handle_tag from the three post-hint dispatcher states behave like the cleaned controller's on valid lexemes) and a run-level one (the relex agreement C06_relex_same_tag / _end_tag restated relative to a sink-state invariant: the kind guard never fires); the argument guard never fires for the real controller in ANY configuration, scanner mode included (Full_args_guardFree, no hypothesis); Full_no_panic_partial2 (Thm/Full8) moves the run-level hypothesis entirely to the CLEANED controller, to which pkg-scan's relex agreement applies as it stands; Thm/Full9 adds the ghost 'outstanding hint kind' controller hintCtl with its homomorphism lemma (run_hint: the ghost is free) and assembles Full_no_panic_partial3: the statement follows from two named hypotheses — the hint operations of the real controller from the four protocol states (Full_scan_opsH_statement) and the kind-guard freedom of the cleaned controller's runs (Full_clean_kindH_statement, = the relex agreement in both hint directions); STATUS of that reduction: the run-level hypothesis is PROVED (Thm/Full10, Full_clean_kindH: in runs of the cleaned, ghost-instrumented controller the kind guard never fires — the relex agreement in both hint directions, PendLaw for PendS / PendE, no hypothesis left); the operation-level hypothesis AS STATED is REFUTED (Thm/Full11, Full_scan_opsH_unsat: for every invariant Inv the statement is false, because CtlRelG demands the invariant after an operation that fails identically in both runs, and the dispatcher's own bounds check emit_chunk_before_lexeme is such a failure on lexemes the per-operation quantifier admits) — so Full_no_panic_partial3 is VACUOUS as it stands and is NOT claimed; the first repair (watermark guard added: Full_scan_opsW_statement) was refuted as well (Full_scan_opsW_unsat: the per-operation relation lets a hint be issued while another is outstanding, which the parser never does); the second repair guards the hint operations too (Thm/Full12: guardHints, Full_scan_opsX_statement with the closed invariant InvX) and is proved for idle x all four operations, all refused hints / lexemes, flush, handle_end and the initial state (Full_scan_opsX_partial), and — with the invariant strengthened to InvY = InvX + 'an outstanding end-tag hint with an active end-tag handler vector has NEXT_END_TAG in the flags' (InvX alone is not inductive) — for EVERY (operation, protocol state) pair (Thm/Full14, Full_scan_opsX). The lifting for the guarded-hints wrapper (run_relX), the freedom of all four guards in the cleaned runs (arguments, kind, watermark, hints: Full_clean_guardX') and the assembly Full_no_panic_partial4 are in Thm/Full13; the capstone Thm/Full15 combines them: Full_no_panic — for EVERY configuration (any selectors; element / text / comment / doctype / end-tag / document-end handlers with observing, mutating, removing or failing scripts), settings, input and chunking, in lexer AND scanner mode, no call of the whole rewriter model with the REAL controller returns a panic- or internal-class error. What IS proved for scanner mode: parser, dispatcher and stream add no panic site of their own with the real controller (Full_writes_agree_or_panic), the argument guard and the kind guard never fire (Full_args_guardFree, Full_clean_kindH), and the controller is panic-free along protocol-conforming event sequences (Full_no_panic_protocol); Full_no_panic is now a THEOREM (Thm/Full15) — see the end of this entry",
     "REAL controller (Thm/Full17, Full23, Full25, Full26): Full_real_eq_clean (the whole model with the real controller = with the cleaned controller, for every configuration, settings, chunking; unconditional) and C15_linear_parse_real / C15_linear_parse_real_new / C15_work_linear_when_drained_real: the linear work bounds hold for the real controller with no hypothesis about the run; the work of the CONTROLLER itself per event is not part of the parse-step count: the run-time end-tag handler vector is covered by lane patho's deterministic handler-step oracle (finding F37, fixed)",
     "work bound: C15_linear_parse (one parse call makes <= 32(|slice|+1) state invocations) and C15_work_linear_when_drained (total work linear when each write leaves <= K retained bytes); without draining the bytes handed to the parser grow quadratically: C15_work_quadratic_witness = known finding F29",
     "known finding F29: a token spanning many writes is re-lexed from its start on every write (quadratic work), found by lane patho",
     "the controller itself never returns a panic/internal-class error (CtlClean)", MODEL_SCOPE],
    level_text=("Lean 4 theorem C15_no_panic: for every tokenizer table satisfying decidable side-conditions (targets exist, "
                "exhaustive arms, quiet enter actions, an abstract flag analysis of every arm's action list, a rank decreasing "
                "along reconsume edges, a token-part certificate found by abstract interpretation) — all re-evaluated by "
                "decide +kernel on the table regenerated from the Rust on every run —, every tag configuration, controller, "
                "settings and write*;end history: every call returns ok / mem / handler / ambiguity (or the documented "
                "use-after-error panic); 21 explicit panic / internal sites are unreachable (cursor underflows, raw and flush "
                "ranges, every Bytes::slice site, unknown state, non-exhaustive match, Arena::shift, leave_ns, 'tag should "
                "exist' assertions), both fuel budgets are never exhausted (C15_fuel) and one parsing-loop run makes at most "
                "8(n+1) state invocations (C15_linear_run). C15_no_panic_full: with the additional side-condition RelexSide NO call "
                "returns a panic- or internal-class error (all 23 sites). C15_linear_parse: one Parser.parse call, all directive "
                "switches included, makes at most 32(|slice|+1) state-function invocations for every table with WfLinear "
                "(C15_linear_statement for bare WfTable is refuted by a 9-state counter-table); total work is linear when writes "
                "drain (C15_work_linear_when_drained) and provably quadratic in bytes handed to the parser otherwise "
                "(C15_work_quadratic_witness, F29). For the REAL controller model (selector VM + handler dispatcher + edit model): "
                "Full_no_panic_lexer — with a document-level text / comment / doctype handler (lexer mode) no call of the whole "
                "rewriter returns a panic- or internal-class error, for every configuration, input and chunking (lexeme-argument "
                "facts for arbitrary sinks: C15_parse_args_valid with the new certificate checkRaw); and Full_no_panic (Thm/Full15) "
                "removes the lexer-mode restriction: scanner mode included, every configuration, no panic- or internal-class result."),
    level_note="Trusted: Lean kernel; DSL translator; the core model (lanes lex / fault, debug build).",
    technique="Lean 4 proof (register invariants through the DSL interpreter; static analyses of the table as kernel-checked side-conditions) + correspondence lanes in a debug build",
    design_ref="DESIGN.md section 4 C15",
)

prop(
    "C09",
    ["LolHtml.Thm.C09_Bound", "LolHtml.Thm.C02_Chunk", "LolHtml.Thm.C02_Final", "LolHtml.Thm.C02_Removal", "LolHtml.Thm.C02_RemovalFinal"],
    [{"lane": "lex", "n_quick": 4000, "n_thorough": 200000}],
    LEX_RULE + "; oracles: emitted count after each write vs a fresh rewriter given the prefix in one write; with no handlers the held bytes must be '<' ['/'] name-prefix or <= 8 look-ahead bytes, and nothing when a full lexer holds nothing",
    ["schedule independence is C09_schedule_independent (in Thm/C02_Chunk): after any successful writes the sink holds exactly the bytes a fresh rewriter emits for the concatenation in one write — for the controller class TextBlind and Clean runs, see C02",
     "the scanner bound is for runs that stay in scanner mode (no handlers, HTML namespace or no RequestLexeme tag); foreign-content tags that need attributes are buffered whole (known finding F10, reproduced on the model as C09_F10_witness)",
     MODEL_SCOPE],
    level_text=("Lean 4 theorems: for any table satisfying the decidable side-condition UnmarkOnLeave (every arm leaving the "
                "tag-head state set clears tag_start or extends '<' ['/'] name; mark_tag_start only on '<') — true on the "
                "generated table by decide +kernel and FALSE with the two offending arms as witness on the pre-fix table "
                "(finding F4) — a scanner run that ends a write holds back w ++ v with w empty or '<', '</', '<'['/'] + partial "
                "tag name and v empty or a proper prefix (<= 6 bytes) of a look-ahead literal (C09_scanner_bound); nothing is "
                "held when the state is a rest state (C09_rest_states); in lexer mode the held bytes are exactly the single "
                "unfinished lexeme (C09_lexer_bound); the bytes out after the k-th write are a function of the bytes written so "
                "far, not of how they were split (C09_schedule_independent; C09_schedule_independent_final needs only that the "
                "single write does not hit the memory limit)."),
    level_note="Trusted: Lean kernel; DSL translator; the core model (lane lex).",
    technique="Lean 4 proof (scanner invariant over a decidable tag-head state set + kernel-checked table side-condition) + correspondence lane + latency oracles",
    design_ref="DESIGN.md section 4 C09",
)

prop(
    "C06",
    ["LolHtml.Thm.C06_Scan", "LolHtml.Thm.C06_Relex", "LolHtml.Thm.C06_Indep", "LolHtml.Thm.C06_Handover", "LolHtml.Thm.C06_EndTag", "LolHtml.Thm.C06_FullCtl", "LolHtml.Thm.C06_ScanIndep", "LolHtml.Thm.Full"],
    [{"lane": "lex", "n_quick": 4000, "n_thorough": 200000},
     {"lane": "full", "n_quick": 2000, "n_thorough": 40000}],
    LEX_RULE + "; oracle: every schedule S is also run as S u O for four observer sets O (TEXT, COMMENTS, DOCTYPES, every tag) and the events H would receive, the result and the sink bytes must be identical",
    ["scanner-mode half, rung 1 (Thm/C06_ScanIndep): with the DISPATCHERS as sinks, a plain scanner run and an observing lexer run stay aligned step by step, over a whole parsing loop, one Parser::parse call and the first write (C06_scan_indep_steps/_loop/_parse_partial/_first_write_partial; across a chunk break when both report the same consumed count: C06_scan_indep_loop_resume) — outside a tag the dispatchers are ObsR-related and H is in the same state, inside a tag the plain run is exactly one hint ahead — for controllers that answer every hint with scan (StayScan) and see names through their hash (HashOnly); C06_independence_statement3 is REFUTED at model level (C06_independence_statement3_refuted: `<a ` + end, a counting controller has seen the hint of a tag the lexer never emits; no handler runs at a hint in the real controller, so this is not a code defect) and replaced by C06_independence_statement4 (open), hand-over (R2) and hash-less names (R3) are statements",
     "independence is proved for the lexer half (C06_independence_partial): for H whose flag sets always contain text, comments or doctypes (StickyCtl: H never drops to the tag scanner) and any observer set O, both modes, every chunking: same call results and same final state of H (H arbitrary, so its events), and same sink bytes for observer-only H (C06_independence_observing); with Model/Full, any two non-mutating configurations give the same output on successful runs (C06_real_output). The scanner<->lexer half (H's flags become empty) has the step simulation, boundary agreement, C06_relex_same_tag / C06_relex_end_tag (both hint directions) and one-event preservation lemmas at dispatcher level for every event kind in every mode combination (Thm/C06_Handover: C06_event_*), but the parser-level alignment of scanner hints with the observing lexer's lexemes (induction over hand-overs and chunk breaks) is not done: C06_independence_statement3 (on runs in which every call of both runs succeeds H ends in the same state; non-strict, EmitDiscipline, PassThroughOn an invariant, sticky observers) stays a statement + oracle there; the real controller model meets both controller hypotheses (C06_fullCtl_emitDiscipline, C06_fullCtl_passThrough); the earlier statement2 ('call results equal') was REFUTED by C06_hint_error_witness: a controller whose handle_start_tag fails gives [Err,..] in scanner mode and [Ok, Err,..] in lexer mode for writes `<a ` then `>` (the scanner calls it at the end of the tag NAME, the lexer at `>`; same mechanism as F27) — the call at which a failing start-tag handler reports depends on the mode",
     "exceptions proved as witnesses on the model: C06_F27_witness (strict mode, known finding F27) and C06_memory_witness (limit 4 bytes, `<!--aaaaaaaa`: the scanner run succeeds, the lexer run reports MemoryLimitExceeded — the retained bytes differ between the modes, so the limit is mode-dependent)",
     "known finding F27: strict-mode ParsingAmbiguity on an unterminated tag at end of input depends on the handler set",
     MODEL_SCOPE],
    level_text=("Lean 4 theorems over the two action sets running the same table: one state-function step from related "
                "scanner / lexer machines leaves them related in the same new state or stops both (C06_scan_lex_simulation, "
                "C06_run_simulation, C06_break_together); outside tags all steering registers and the simulator state are "
                "equal and the scanner's hint log equals the lexer's tag-lexeme log, inside a tag the scanner is exactly one "
                "simulator event ahead (C06_boundary_agreement, C06_inTag_one_ahead); both mode switches re-establish the "
                "relation (C06_switch_*); adding capture flags never turns lex into scan. When the scanner hands over with "
                "directive lex and a bookmark, every lexer loaded from that bookmark makes exactly |head| silent calls and runs "
                "finish_tag_name on a token with the same kind, name hash and name range (C06_relex_same_tag), nothing between "
                "finish_tag_name and emit_tag touches kind/hash/name/feedback (C06_relex_intag) and emit_tag hands that token "
                "to handle_tag (C06_relex_emit). Side-conditions PhaseOk, TextTypeOk (what F1 violated: C06_textTypeOk_rejects_F1) "
                "and RelexOk on the generated table by decide +kernel. C06_independence_partial(+_no_panic, _gen): for every controller "
                "H that stays in lexer mode and every observer set O, H and H u O return the same call results under every "
                "chunking in both modes and H ends in the same state. Scanner-mode half: parser-level alignment of a plain scanner "
                "run with an observing lexer run, dispatchers as sinks, for controllers that stay in scanner mode "
                "(C06_scan_indep_loop, C06_scan_indep_parse_partial, C06_scan_indep_first_write_partial). PARTIAL: the hand-over "
                "and stream-level induction of the scanner-mode half is a statement (C06_independence_statement4; statement3 is "
                "refuted at model level) + oracle."),
    level_note="Trusted: Lean kernel; DSL translator; the core model (lane lex).",
    technique="Lean 4 proof (simulation relation between the two machines, preserved by every table arm) + correspondence lane + H vs H u O oracle",
    design_ref="DESIGN.md section 4 C06",
)


prop(
    "C16",
    ["LolHtml.Thm.C16_Attrs"],
    [{"lane": "attrs", "n_quick": 3000, "n_thorough": 32000},
     {"lane": "edit", "n_quick": 1500, "n_thorough": 15000},
     {"lane": "full", "n_quick": 2000, "n_thorough": 40000}],
    "lane edit (secondary: reads after edits surface in the serialised output); lane attrs: one start tag (all attribute syntaxes, odd characters, '/' placements, upper case, non-ASCII bytes, html/svg/math context, cut anywhere) through the real HtmlRewriter (element handler: tag_name, attributes(), get/has_attribute, is_self_closing, can_have_content, namespace_uri, locations; then, in about 45 % of the cases, an edit script set_attribute / remove_attribute / set_tag_name — attribute-less tags, duplicates, case variants, set-then-remove, remove-then-set, rejected names — after which tag_name, attributes() and the queries are read again) vs model + Spec.Attrs; oracle: independent WHATWG attribute parser cross-checked with html5ever, and an independent list algebra for the reads after edits (tag edit-read)",
    ["the byte-level API model presumes the read accessors decode bijectively (windows-1252 in the lane; exact for every byte string since the accessors decode without BOM handling)",
     "serialisation of an edited tag is C07's (package edit), not read back here"],
    level_text="Lean 4 theorems for every input byte string: the lexer on the generated table follows Spec.Attrs (C16_outline, unfinished, across a chunk break), emit_tag hands exactly that outline to the sink (C16_emit_tag), lookups/context on the token (C16_lookup, C16_context), reads after edits on the same token (C16_reads_after_edits: set -> first match replaced or appended, remove -> every match gone, rename -> lower-cased new name; materialising the list changes no read; rejected edits change nothing); lookups and remove_attribute accept EVERY name, also those the setter rejects (C16_lookup_full, C16_remove_full: the former F8 counterexamples are now theorems); F9 refuted statement.",
    level_note="Trusted: Lean kernel; Spec.Attrs (WHATWG reading); model tied by lanes lex and attrs.",
    technique="Lean 4 proof (symbolic evaluation of the DSL interpreter per state and byte class + induction over the input; list algebra for the edit API) + correspondence lane",
    design_ref="DESIGN.md section 4 C16",
)

prop(
    "C14",
    ["LolHtml.Thm.C14_Locations", "LolHtml.Thm.C14_TextNodes", "LolHtml.Thm.Full24", "LolHtml.Thm.Full28"],
    [{"lane": "attrs", "n_quick": 2000, "n_thorough": 20000}, {"lane": "lex", "n_quick": 2000, "n_thorough": 30000},
     {"lane": "enc", "n_quick": 2000, "n_thorough": 20000}],
    LEX_RULE + "; lane enc (package enc's decoder lane, secondary here): the source ranges of the decoder-level text chunks (contiguous, covering the text node, closing chunk at its end) are reported under C14 as well",
    ["for the REAL controller model, which is provably not CtlClean, the range theorem is C14_ranges_real_all (Thm/Full28, through the logging ghost of Thm/Full24 and Full_real_eq_clean_HL: the logged real and cleaned runs are equal, log included): ordered, disjoint, well-formed logged ranges for every configuration, settings record and chunking, no hypothesis about the run",
     "C14_ranges_all_controllers assumes CtlClean (an error returned by a handler is a handler-class error, not one of the model's markers for a Rust panic) and the decidable table side-conditions WfTable (package inv) and EmitsChecked, both evaluated on the generated table; C14_text_contiguous and C14_independent_of_rewrites need EmitsChecked only and no assumption on the controller",
     "text-node theorems are about the tokens the dispatcher model hands over (one chunk per text lexeme plus the closing chunk); the split of one lexeme into decoder chunks is package enc's model (C13), joined by C14_text_node_decoder_ranges; that a text node's lexemes are what the standard calls one text node is C01/C03's subject",
     MODEL_SCOPE],
    level_text="Lean 4 theorems: every token carries src = prevConsumed + raw with raw bytes = the input bytes (C14_src), prevConsumed grows by the bytes consumed (C14_offset); for EVERY controller (rewriting, removing element content, failing) the tokens handed over are well-formed, ordered and pairwise disjoint within and across writes (C14_ranges_all_controllers, using package inv's register invariant); the chunks of one text node are contiguous — each non-last chunk is followed by a text chunk starting at its end, every range is as long as its bytes, the closing chunk sits at the end (C14_text_contiguous, C14_text_node_layout) — and the decoder-level chunks of the node are contiguous and cover exactly that interval (C14_text_node_decoder_ranges, with C13_decoder); two controllers differing only in the bytes they emit receive the same tokens (C14_independent_of_rewrites); attribute name/value locations are exactly the document ranges Spec.Attrs reads, inside the tag (C14_attr_locations).",
    level_note="Trusted: Lean kernel; model of dispatcher/transform_stream (lane lex), read API (lane attrs), text decoder (lane enc).",
    technique="Lean 4 proof (sink-preservation / relational parametricity / joint lexer-sink invariants over the interpreter + dispatcher invariants) + correspondence lanes",
    design_ref="DESIGN.md section 4 C14",
)


prop(
    "C02",
    ["LolHtml.Thm.C02_Chunk", "LolHtml.Thm.C02_Final", "LolHtml.Thm.C02_Removal", "LolHtml.Thm.C02_RemovalFinal", "LolHtml.Thm.C02_RealClosed"],
    [{"lane": "lex", "n_quick": 4000, "n_thorough": 200000},
     {"lane": "full", "n_quick": 2000, "n_thorough": 40000},
     {"lane": "pass", "n_quick": 2000, "n_thorough": 40000, "impl_only": True}],
    LEX_RULE + "; oracle: every chunked run is compared with the single-write run (result, canonical event log with absolute ranges, output); lane pass: text nodes seen by a text handler under every encoding must not depend on the chunking",
    ["whole-run invariance (C02_chunk_invariance, C02_chunk_vs_single) is proved for the controller class TextBlind: an equivalence E on controller states respected by all operations, tokens observed in absolute form, text chunks never fail / never switch encoding / serialise to themselves / are splittable up to E (text-ignoring controllers, constant-flag observers, a byte counter that does observe text, and the lane's scripted controller with failAt = 0 are instances), and shouldEmit always true; content REMOVAL is covered by the class TextBlindR (Thm/C02_Removal: handle_start_tag, the aux-info continuation and non-tag tokens keep should_emit_content, handle_end_tag may only turn it on, tag tokens may change it arbitrarily) — an emission discipline the TransformController trait does not document but the real controller satisfies. The real controller model fullCtl (any selectors; element / comment / doctype / end-tag / document-end handlers with arbitrary mutating or failing scripts, NO text handlers) is an instance (C02_real_class), giving C02_real / C09_real: the rewritten OUTPUT of the whole rewriter model is the same for every chunking — with ONE hypothesis left, Clean of the runs involved (C02_real_final, C09_real_final). The run hypothesis ResumeAtEndTag (the re-lexed tag after an end-tag hint is that end tag; the flush watermark is valid while emission is off) is a THEOREM on every chunking for every controller with the emission discipline whose panics never carry the guard's site string (C02_resumeAtEndTag_all; for the real controller C02_resumeAtEndTag_real, via a simulation with a 'cleaned' controller to which C06_relex_end_tag and inv's parse_post apply); for controllers that never return panic-class errors the final forms need only 'no memory-limit error'. For fullCtl the panic half of Clean is discharged by Full_no_panic (Thm/Full15): C02_real_closed (Thm/C02_RealClosed) — for every configuration without text handlers, any two chunkings of a document give the same outcome and on success byte-identical rewritten OUTPUT, assuming only that no call hits the memory limit",
     "the two chunked runs and the single-write run must be Clean: no panic-class result (C15_no_panic_full shows they cannot occur) and no memory-limit error (the limit is chunk-dependent by nature); chunk lists non-empty",
     "handler-visible TEXT under non-UTF-8 encodings (decoder state across writes) is covered by lanes pass / enc and C13's decoder theorems, not by this theorem", MODEL_SCOPE],
    level_text=("Lean 4 theorems for any table satisfying the decidable side-condition WfChunk (a forward dataflow analysis of "
                "which position registers are live, checked as a post-fixpoint by decide +kernel on the generated table; it "
                "encodes the discipline finding F7 violated), both machines and any sink: every action of both action sets "
                "preserves the relation 'split run on a slice vs whole run on the document' with absolute ranges equal "
                "(C02_action_partial), action lists / conditions / transitions (C02_body_partial), look-ahead sequences and "
                "memchr scans give the same verdict unless the slice ends first (C02_lookahead_horizon, C02_memchr_horizon), "
                "breaks re-base correctly (C02_break_*), ONE STATE-FUNCTION INVOCATION is lock-step or, only if the slice "
                "ends first, a break of the split run alone (C02_step); one cut: parse a vs the parse of pre++a++post reaches a "
                "machine related to the resumed parser in frame delta+c (C02_resumption); the dispatcher is an instance for the "
                "controller class TextBlind (C02_dispatcher); ANY non-empty chunking vs ONE write gives the same outcome and, on "
                "success, the same sink bytes and E-related controller states (C02_chunk_vs_single); two chunkings with equal "
                "concatenation give the same outcome and sink bytes (C02_chunk_invariance); on the lane world also the same "
                "event log (C02_chunk_invariance_lex); C02_chunk_invariance_final replaces the Clean hypotheses by 'no call "
                "hits the memory limit' using C15_no_panic_full. With content removal (C02_Removal): the same theorems for the "
                "class TextBlindR, the real controller model as an instance (C02_real, C09_real: rewriting output independent of "
                "the chunking for configurations without text handlers), ResumeAtEndTag discharged for every controller with the "
                "emission discipline incl. the real one (C02_resumeAtEndTag_all/_real): C02_real_final / C09_real_final assume "
                "only that no call returns a panic-class or memory-limit error, and C02_real_closed (with Full_no_panic) only the latter."),
    level_note="Trusted: Lean kernel; DSL translator; the core model (lane lex).",
    technique="Lean 4 proof (simulation between a run on a slice and a run on the whole document: step, one cut, dispatcher instance, induction over chunk lists) + correspondence lane + chunked-vs-single oracle",
    design_ref="DESIGN.md section 4 C02",
)
