"""Per-property configuration of the check pipeline (which theorem modules, which lanes)."""

KERNEL = "Lean 4.33.0 kernel; axioms allowed: propext, Classical.choice, Quot.sound (audited per theorem on every run)"
TRANSLATORS = "translators /verif/translate/*.py (DSL/table extraction from /repo on every run)"
LANES = "Rust harness /verif/harness + Lean driver /verif/lean/Driver.lean + case generators /verif/gen (correspondence)"
RUSTC = "rustc/cargo: the harness build of /repo behaves like its source"

PROPS = {}


def prop(pid, thm_modules, lanes, rule, assumptions, trusted_extra=(), expected_theorems=None):
    PROPS[pid] = {
        "thm_modules": thm_modules,
        "lanes": lanes,
        "rule": rule,
        "assumptions": list(assumptions),
        "trusted_base": [KERNEL, TRANSLATORS, LANES, RUSTC] + list(trusted_extra),
        "expected_theorems": expected_theorems,
    }


# pipeline self-test (not a property of lol-html; not in MANIFEST)
prop(
    "C00",
    ["LolHtml.Basic"],
    [{"lane": "echo", "n_quick": 50, "n_thorough": 500}],
    "hex round trip self-test",
    ["none"],
)
