"""Per-property configuration of the check pipeline (which theorem modules, which lanes)."""

KERNEL = "Lean 4.33.0 kernel; axioms allowed: propext, Classical.choice, Quot.sound (audited per theorem on every run)"
TRANSLATORS = "translators /verif/translate/*.py (DSL/table extraction from /repo on every run)"
LANES = "Rust harness /verif/harness + Lean driver /verif/lean/Driver.lean + case generators /verif/gen (correspondence)"
RUSTC = "rustc/cargo: the harness build of /repo behaves like its source"

PROPS = {}


def prop(pid, thm_modules, lanes, rule, assumptions, trusted_extra=(), expected_theorems=None,
         level_text="", level_note="", technique="", design_ref="", claimed=True):
    PROPS[pid] = {
        "thm_modules": thm_modules,
        "lanes": lanes,
        "rule": rule,
        "assumptions": list(assumptions),
        "trusted_base": [KERNEL, TRANSLATORS, LANES, RUSTC] + list(trusted_extra),
        "expected_theorems": expected_theorems,
        "level_text": level_text,
        "level_note": level_note,
        "technique": technique,
        "design_ref": design_ref,
        "claimed": claimed,
    }


# pipeline self-test (not a property of lol-html; not in MANIFEST)
prop(
    "C00",
    ["LolHtml.Basic"],
    [{"lane": "echo", "n_quick": 50, "n_thorough": 500}],
    "hex round trip self-test",
    ["none"],
    claimed=False,
)

LEX_RULE = ("lane lex: documents from a grammar over an adversarial fragment alphabet (gen/lex.py: all tokenizer constructs, "
            "truncated constructs, text-mode elements, select/template/frameset, foreign content with integration points, odd "
            "attribute syntax, random bytes) x random cut sets (none / byte-wise / 1 / 2 / k cuts / repeated cuts = empty writes) x "
            "strict on/off x capture-flag schedules indexed by tag-event number (incl. attribute-info requests); a case is "
            "non-trivial when it reaches at least one tag/comment/doctype event; distinct = distinct case line")
MODEL_SCOPE = ("modelled by hand and tied by the lex lane (not verified against the Rust text): DSL macro semantics "
               "(state_machine/mod.rs, syntax_dsl/**), lexer and tag-scanner actions, tree-builder simulator, parser loop, "
               "dispatcher, transform stream, HtmlRewriter poisoning (lean/LolHtml/Model/{SM,TreeSim,Dispatcher,Stream}.lean); "
               "translated from the Rust text on every run: the tokenizer table, character classes, sequence literals, tag lists and hashes")

prop(
    "C01",
    ["LolHtml.Thm.C01"],
    [{"lane": "lex", "n_quick": 4000, "n_thorough": 200000},
     {"lane": "pass", "n_quick": 3000, "n_thorough": 60000, "impl_only": True}],
    LEX_RULE + "; lane pass (implementation only): public HtmlRewriter in all 36 ASCII-compatible encodings, documents whose text the encoding round-trips, cuts anywhere incl. inside multi-byte characters, 6 observer handler sets",
    ["observing controller = tokens serialise to their raw bytes (the property's own round-trip exception for captured text), emission never disabled, nothing appended at document end",
     "runs that reach one of the model's explicit panic branches (Rust debug assertions / clamped slices) are not successful runs; their unreachability is C15's subject",
     MODEL_SCOPE],
    level_text=("Lean 4 theorem C01_passthrough: for EVERY tokenizer table, tag configuration, settings, observing controller "
                "(arbitrary capture-flag decision at every tag, i.e. arbitrary scanner/lexer switching), byte string and split into "
                "writes (empty writes included): if all calls succeed the sink bytes equal the bytes written; plus the per-write "
                "invariant sink ++ retained = written. Proved by a generic sink-preservation theorem over the DSL interpreter "
                "(Lemmas/Preserve) and a dispatcher tiling invariant (Lemmas/Tiling). The model is tied to the code by the lex "
                "correspondence lane (model vs real TransformStream on generated cases) and the direct oracle sink == input."),
    level_note=("Trusted: Lean kernel (axioms propext, Quot.sound only), the hand-written model of the dispatcher/parser glue "
                "(checked by the lex lane, not proved equal to the Rust), the DSL/tag translators. Not covered: decode/encode "
                "round-trip of captured text (hypothesis), non-observing handlers (C07)."),
    technique="Lean 4 proof (invariant + generic preservation over the interpreter) + model/implementation correspondence lane",
    design_ref="DESIGN.md section 4 C01",
)



PKG_SCOPE = "model files of the package are hand-written transcriptions tied by the package's lane (see docs/pkg-*.md for the Rust line <-> Lean def table)"

prop(
    "C03",
    ["LolHtml.Thm.C03_Sim"],
    [{"lane": "hash", "n_quick": 3000, "n_thorough": 40000},
     {"lane": "lex", "n_quick": 3000, "n_thorough": 100000}],
    "lane hash: names over the hash alphabet, table names with case variants, length-limit and sentinel neighbourhood, bad bytes; "
    + LEX_RULE,
    ["the real WHATWG tree builder is NOT modelled: the expected namespaces / text types are the author's reading of WHATWG 13.2.6, validated on witnesses against html5ever (lane nsprobe), not proved",
     "Ref tables (lean/LolHtml/Ref/Tags.lean) are hand-reviewed against the standard",
     MODEL_SCOPE],
    level_text=("Lean 4 theorems over the translated tag tables and the simulator model: generated tables = reviewed reference "
                "(C03_tags_match_reference, kernel decide), every table hash is the hash of its name and hash equality is name "
                "equality for letter-initial names (C03_hash_injective, induction), exact characterisation of unhashable names, "
                "ambiguity-guard = recursive specification with the exact refusal condition (C03_guard_spec, C03_guard_err_iff), "
                "simulator invariants for all tag sequences (stack never empty, cdata flag = foreign namespace, strict run = "
                "non-strict run when accepted), and the expected namespace at every tag of every derivation of a well-nested "
                "foreign-content grammar (C03_foreign_grammar, C03_foreign_doc), with proved counter-examples for the grammar's "
                "side conditions. PARTIAL: equality with a real tree builder on tag soup is not a theorem."),
    level_note=("Trusted: Lean kernel; translators; the reviewed Ref tables; the model of the simulator (tied by lanes lex/hash). "
                "Not covered: the 23 insertion modes of the real tree builder; tokenizer-table conformance to WHATWG 13.2.5 "
                "(reference table for the DSL still to be added)."),
    technique="Lean 4 proof (kernel-evaluated table obligations + induction over tag sequences / grammar derivations) + correspondence lanes",
    design_ref="DESIGN.md section 4 C03",
)

prop(
    "C04",
    ["LolHtml.Thm.C04_VM", "LolHtml.Thm.C04_Pure"],
    [{"lane": "sel", "n_quick": 1500, "n_thorough": 20000},
     {"lane": "selpure", "n_quick": 2000, "n_thorough": 40000}],
    "lane sel: selector sets printed from the model's AST grammar (type, *, #id, .class, six attribute operators with i/s, :nth-*, :not() with simple/compound/list/nested arguments, child and descendant combinators, lists) x tag-event scripts (mis-nested, stray end tags, voids, case variants, duplicate attributes, foreign self-closing, ESI) x cuts: model VM vs real HtmlRewriter hits, Spec.Css vs an independent Rust reference matcher, Lean printer vs the text fed to the real parser, predicted vs actual Ast dump; lane selpure: nth triples incl. extreme offsets, attribute operators x case flags x namespaces x empty operands, id/class/exists",
    ["CSS text parsing (crates selectors/cssparser) is not modelled: the model starts from the component list; the lane compares the printed text and the Ast dump",
     "the :not() restriction of C04_vm_refines_css (arguments are single simple selectors or lists of them) is finding F3, proved necessary by C04_vm_refines_css_statement_false",
     "memory limiter, i32 overflow of a child counter after 2^31-1 siblings, more than 31 selectors are not modelled", PKG_SCOPE],
    level_text=("Lean 4 theorems: compiler-correctness style refinement C04_vm_refines_css — for every selector set whose :not() "
                "arguments are simple selectors (lists allowed) and every tag-event sequence, the matching VM (trie with "
                "predicate sharing, compiled address ranges, jumps, de-duplicated hereditary jumps, the three bail-out / "
                "recovery paths, stack with typed child counters) reports exactly the matches of CSS semantics on the tree the "
                "events induce; C04_independence; split evaluation and bail-out equivalence (C04_split_eval, C04_bailout_eq); "
                "counters = sibling indices (C04_counters); never panics; leaf functions: has_index on ALL i32 triples = the "
                "an+b definition (C04_nth), six attribute operators = CSS on all byte strings in both case modes (C04_attr_ops). "
                "The compound-negation flattening is refuted against the spec (known finding F3)."),
    level_note="Trusted: Lean kernel; model of selectors_vm/{ast,compiler,program,mod,stack,attribute_matcher}.rs tied by lanes sel and selpure through the public API; Spec.Css as the reading of CSS Selectors.",
    technique="Lean 4 proof (refinement VM ⊑ CSS semantics by invariant over open elements; bit-vector arithmetic for nth) + correspondence lanes",
    design_ref="DESIGN.md section 4 C04",
)

prop(
    "C05",
    ["LolHtml.Thm.C05_Scope"],
    [{"lane": "scope", "n_quick": 2000, "n_thorough": 10000}],
    "lane scope: tag-event scripts (unclosed, mis-nested, void, foreign self-closing, removed content) x handler registrations (element/text/comments/end-tag/document) x cuts, real HtmlRewriter with logging handlers vs the model",
    ["the matcher is an arbitrary function from start tags to sets of registered match ids (WfEvents); that the VM returns only registered ids is C04's",
     "handler/memory errors, ESI tags, meta-charset handler id shift are not modelled", PKG_SCOPE],
    level_text=("Lean 4 theorems, for every handler script, registration, event list and matcher: the controller model refines a "
                "reference scope specification (C05_refines), user counts equal the number of open matched elements "
                "(C05_refcount), text/comment/doctype delivery iff in scope (C05_scope_*), per-token order = registration order "
                "with selector-scoped first (C05_order), end-tag closures run exactly once at the closing end tag "
                "(C05_end_tag_*), end handlers once after all input (C05_end_once), no counter underflow (C05_no_panic)."),
    level_note="Trusted: Lean kernel; model of handlers_dispatcher.rs / rewrite_controller.rs tied by lane scope.",
    technique="Lean 4 proof (refinement to an abstract scope spec by invariant) + correspondence lane",
    design_ref="DESIGN.md section 4 C05",
)

prop(
    "C08",
    ["LolHtml.Thm.C08_Escape"],
    [{"lane": "esc", "n_quick": 3000, "n_thorough": 30000}],
    "lane esc: body text / attribute values / comment text / attribute names / tag names biased to <>&\"'-!/= whitespace NUL comment terminators non-BMP unmappable; utf-8 and x-user-defined",
    ["theorems are for UTF-8 documents (identity codec); other encodings are exercised by the lane and the re-tokenising oracle only",
     "escape maps, reject lists and closing sequences are re-extracted from the Rust text on every run (translate/consts2lean.py); 20 side-conditions by decide", PKG_SCOPE],
    level_text=("Lean 4 theorems on the generated constants: escaped body text contains no < > and only complete entities and "
                "decodes back (C08_body_no_markup), is one data-state run (C08_body_text_run); attribute values contain no "
                "double quote; set_text accepts iff the WHATWG comment machine ends exactly at the final --> (C08_comment_iff, "
                "necessary and sufficient); accepted tag/attribute names read back whole and each rejected byte splits a name "
                "(C08_tag_name_iff, C08_attr_name_*); an accepted attribute re-parses as exactly one attribute "
                "(C08_attribute_reads_back); setters leave the token unchanged on error (C08_reject_unchanged_*)."),
    level_note="Trusted: Lean kernel; consts translator; small specs of the WHATWG comment / tag-name / attribute states written for this package.",
    technique="Lean 4 proof (list induction; decidable side-conditions on translated constants) + correspondence lane + re-tokenising oracle",
    design_ref="DESIGN.md section 4 C08",
)

prop(
    "C10",
    ["LolHtml.Thm.C10_Memory"],
    [{"lane": "mem", "n_quick": 3000, "n_thorough": 20000},
     {"lane": "memts", "n_quick": 2000, "n_thorough": 10000},
     {"lane": "memrw", "n_quick": 600, "n_thorough": 6000, "impl_only": True}],
    "lane mem: op sequences on the real Arena + LimitedVec<T> (item sizes 1/8/7/24/512) sharing one limiter; memts: TransformStream write protocol; memrw (impl only): limit sweeps over buffer-growing inputs on HtmlRewriter/TransformStream",
    ["Vec::try_reserve_exact yields exactly the requested capacity; the allocator does not fail",
     "memory that the limiter is never told about (element-name copies in the open-element stack, decoder-held bytes, attribute outlines) is outside the model: see known findings", PKG_SCOPE],
    level_text=("Lean 4 theorems over arbitrary operation lists: usage = arena.cap + vec.cap*itemSize + failed charges "
                "(C10_accounting), for EVERY preallocation size (clamped to the limit) while all ops succeeded usage <= M hence retained input <= M "
                "(C10_bound, C10_bound_held), the exceeding op returns the error and never panics incl. checked_mul overflow "
                "(C10_error_not_panic), success is monotone in M with the same results and buffered bytes (C10_monotone, by a "
                "simulation relation), results are a function of (M, prealloc, itemSize, ops); "
                "for the TransformStream write protocol: bytes in = bytes out + retained, retained <= M (C10_write_retention)."),
    level_note="Trusted: Lean kernel; model of memory/*.rs and the write() buffer protocol tied by lanes mem/memts (hooks VerifArena/VerifLimitedVec).",
    technique="Lean 4 proof (invariant by induction over operation lists) + correspondence lanes + limit-sweep oracle",
    design_ref="DESIGN.md section 4 C10",
)

prop(
    "C13",
    ["LolHtml.Thm.C13_Encoding"],
    [{"lane": "enc", "n_quick": 3000, "n_thorough": 21000}],
    "lane enc: decoder feeds with arbitrary splits (all 36 encodings on the implementation side; UTF-8, windows-1252, ISO-8859-7 on the model side), text > 1 KiB, malformed bytes, encoder, UTF-8 resync, meta charset positions, non-ASCII-compatible refusal",
    ["encoding_rs is assumed to satisfy the codec laws (checked by the lane against whole-buffer decode/encode, not proved)",
     "decoder buffer >= 4, encoder buffers >= 14 (real: 1024 / 63 / 4096)", PKG_SCOPE],
    level_text=("Lean 4 theorems for every lawful codec, buffer size and split: concatenated handler text = whole decode, exactly "
                "one last_in_text_node chunk, chunk source ranges contiguous and covering the node (C13_decoder, C13_ranges); fast path = slow path "
                "(C13_fastpath); encoder output = per-scalar encoding or NCR, independent of buffer sizes (C13_encoder); UTF-8 "
                "resync safety (C13_resync_safe/rejects, liveness partial); meta charset: at most one change, effective after "
                "the tag, sink notified first (C13_meta); three codec instances proved lawful. PARTIAL: encoding_rs itself."),
    level_note="Trusted: Lean kernel; model of text_decoder.rs / text_encoder.rs / flush_encoding_change tied by lane enc (hook VerifTextDecoder).",
    technique="Lean 4 proof (abstract codec laws + induction over feeds) + correspondence lane + whole-buffer encoding_rs oracle",
    design_ref="DESIGN.md section 4 C13",
)


prop(
    "C11",
    ["LolHtml.Thm.C11"],
    [{"lane": "fault", "n_quick": 4000, "n_thorough": 100000},
     {"lane": "proto", "n_quick": 5000, "n_thorough": 100000, "impl_only": True}],
    LEX_RULE + "; lane fault = lane lex plus a handler failure injected at token index 1..8, graceful flags, memory limit and preallocation sweeps (model vs real TransformStream); lane proto (implementation only): public HtmlRewriter in all 36 encodings with end / bail-out content, token mutations with empty strings, a failure injected at handler invocation index 1..11 or by memory limit, graceful flags on/off, preallocation sizes, cuts anywhere: byte preservation and bail-out handler count",
    ["proved for observing controllers (handlers that inspect and may FAIL at any invocation but do not mutate); rewritten tokens / removed content / partly emitted text nodes (the property's documented exceptions) are exercised by lanes only",
     "an end-handler failure happens after every received byte was emitted; the bail-out handlers are not run then (as coded and as the repository's own test expects)",
     MODEL_SCOPE],
    level_text=("Lean 4 theorem C11_bailout_write: for every table, flag schedule, chunking, memory limit and preallocation, "
                "when a write fails (handler error at any token, Arena::append, Arena::init_with, parser) after successful "
                "writes, the sink holds written.take j ++ bail-out-handler output ++ written.drop j with the matching flag "
                "(handlers ran exactly once), and the prefix written.take j without it (no handler ran); C11_flags: each flag "
                "recovers only its own kind, ambiguity never; C11_no_bailout_on_success. Built on the C01 tiling invariant, "
                "which holds at the moment of the error."),
    level_note="Trusted: Lean kernel; model of transform_stream/{mod,dispatcher}.rs and memory/arena.rs (lanes lex, mem, memts).",
    technique="Lean 4 proof (tiling invariant holds at every failure point) + correspondence lanes",
    design_ref="DESIGN.md section 4 C11",
)

prop(
    "C12",
    ["LolHtml.Thm.C12"],
    [{"lane": "fault", "n_quick": 4000, "n_thorough": 100000},
     {"lane": "proto", "n_quick": 5000, "n_thorough": 100000, "impl_only": True}],
    LEX_RULE + "; lane fault = lane lex plus injected failures and memory limits; lane proto (implementation only): as for C11, checking the sink-call log against the protocol automaton (encoding first, zero-length chunk exactly once and last on success, never on failure, use after error panics silently)",
    ["content written by end / bail-out handlers goes through the text encoder and is never an empty slice (CleanEnds; the encoder fact is C13_encoder)",
     "'prefix of the failure-free run' is proved only as monotonicity of the sink log (C12_monotone); the comparison of two runs is checked by lanes",
     MODEL_SCOPE],
    level_text=("Lean 4 theorems for EVERY controller (mutating ones included), table, chunking and failure point: the sink log "
                "is the encoding notification, then events none of which is a zero-length chunk, then the zero-length chunk iff "
                "end() succeeded and then last (C12_protocol); a failed call poisons the rewriter and every later call is the "
                "documented panic with the log unchanged (C12_fail_stop, C12_error_poisons); no call retracts output "
                "(C12_monotone)."),
    level_note="Trusted: Lean kernel; model of rewriter/mod.rs guarded!, transform_stream, dispatcher (lane lex).",
    technique="Lean 4 proof (generic sink-preservation over the interpreter + monotone log invariant) + correspondence lane",
    design_ref="DESIGN.md section 4 C12",
)

prop(
    "C17",
    ["LolHtml.Thm.C17_CApi"],
    [{"lane": "capi", "n_quick": 1500, "n_thorough": 20000}],
    "lane capi: mirrored handler scripts executed through the real extern C entry points and through the Rust API (18 op shapes, streaming handlers, Stop at handler indices, invalid UTF-8, leaks, API call orders allowed by lol_html.h)",
    ["pointer-level memory safety of the unsafe blocks and unwinding across extern C are not modelled",
     "the Rust API is an abstract state machine R; C-run = R-run is proved per entry point (unit level), whole-run sink equality is checked by the lane", PKG_SCOPE],
    level_text=("Lean 4 theorems over an ownership-ledger model of c-api/src for every R, handler program and call history: "
                "handles never reused, freed objects never touched (C17_ownership_ledger), drop callback exactly once "
                "(C17_drop_callback_once), end takes the inner value and free afterwards is a no-op on it, invalid UTF-8 never "
                "reaches R, Ok/Err map to 0/-1 with LAST_ERROR set on the calling thread (C17_failure_sets_last_error), each "
                "entry point = decode; call R; encode (C17_wrapper_unit); every -1/NULL of every entry point sets LAST_ERROR incl. the streaming rejections (C17_unit_failure_sets_last_error, C17_streaming_failure_reported). The full header-precondition safety statement is "
                "REFUTED on the attribute-iterator history (known finding) and proved under the strengthened policy. PARTIAL."),
    level_note="Trusted: Lean kernel; ledger model of c-api/src/*.rs and lol_html.h tied by lane capi.",
    technique="Lean 4 proof (invariant over call histories of an ownership ledger) + correspondence lane",
    design_ref="DESIGN.md section 4 C17",
)

prop(
    "C18",
    ["LolHtml.Thm.C18_Isolation"],
    [{"lane": "capi", "n_quick": 800, "n_thorough": 10000},
     {"lane": "thr", "n_quick": 300, "n_thorough": 3000, "impl_only": True}],
    "lane thr (impl only): the same rewrite on N threads with random yields, a send::HtmlRewriter migrated after every write, concurrent selector parsing, LAST_ERROR across threads; lane capi as for C17",
    ["data races / memory ordering are not modelled; real threads are exercised by lane thr only",
     "the list of global items is re-extracted from every *.rs under src/ and c-api/src/ on every run (translate/globals2lean.py)", PKG_SCOPE],
    level_text=("Lean 4 theorems: the generated list of global items has no mutable item in the core crate and only the "
                "thread-local LAST_ERROR in the C API (C18_no_globals, by decide on the list re-extracted from the sources); "
                "an operation by thread t changes only slot t and take returns the latest error of the same thread "
                "(C18_last_error_isolated, C18_take_latest); a run is a function of (policy, program, calls). PARTIAL: "
                "interleavings themselves are not modelled."),
    level_note="Trusted: Lean kernel; globals translator; ledger model (lane capi); real threads only sampled (lane thr).",
    technique="Lean 4 proof (decidable obligation on the translated global-items list + per-thread slot invariant) + thread lane",
    design_ref="DESIGN.md section 4 C18",
)


prop(
    "C07",
    ["LolHtml.Thm.C07_Edit"],
    [{"lane": "edit", "n_quick": 2500, "n_thorough": 30000}],
    "lane edit: documents built from a token-level grammar (well-formed tags with attributes, end tags, comments, text, doctype; nested / unclosed / stray / void / foreign self-closing elements) x cut positions x handler scripts (selector restricted to type selectors and *, all Element / start_tag / end_tag / comment / text / doctype / document-end operations with arbitrary strings, both content types, streaming handlers, several handlers per token, on_end_tag): real HtmlRewriter output vs model, documented output (Spec.EditDoc) vs an independent Rust reference editor",
    ["the token stream is an input of the model (the parser is C01/C02/C16's subject); selectors beyond type selectors and * are C04's",
     "the whole-document theorem is for CLEAN runs: no element with visible end-region edits is closed implicitly or left open at end of input (outside: known findings F24, F25, refuted by proved counter-examples)",
     "UTF-8 documents (escaping/encoding of inserted content is an abstract function enc; C08/C13 own it)", PKG_SCOPE],
    level_text=("Lean 4 theorems, universal over operation scripts, tokens and handler sets: serialising an edited token = "
                "before1..n ++ (own bytes | last replacement | nothing) ++ after m..1 for every token kind (C07_token_edit); "
                "untouched attributes keep raw bytes and order, touched ones are name=\"escaped\", last set/remove wins "
                "(C07_attrs_*); every Element method = its documented edit of the regions before / start tag / prepended / "
                "inner / appended / end tag / after, incl. no-ops when the element cannot have content (C07_element_ops); the "
                "emission switch: nothing between a start tag with removed content and its closing end tag reaches the sink, "
                "emission resumes exactly there (C07_removed_content_*); whole document: for every clean run the sink equals "
                "Spec.EditDoc.rewrite by a simulation proof (C07_output_eq_edit_spec). The unconditional statement is refuted "
                "on implicit-close / unclosed-at-EOF shapes (known findings)."),
    level_note="Trusted: Lean kernel; model of rewritable_units/{mutations,element,tokens/*}.rs and the removed-content logic tied by lane edit; Spec.EditDoc as the reading of the API documentation.",
    technique="Lean 4 proof (algebraic laws of mutations + simulation to a document-edit specification) + correspondence lane + reference editor",
    design_ref="DESIGN.md section 4 C07",
)
