"""Per-property configuration of the check pipeline (which theorem modules, which lanes)."""

KERNEL = "Lean 4.33.0 kernel; axioms allowed: propext, Classical.choice, Quot.sound (audited per theorem on every run)"
TRANSLATORS = "translators /verif/translate/*.py (DSL/table extraction from /repo on every run)"
LANES = "Rust harness /verif/harness + Lean driver /verif/lean/Driver.lean + case generators /verif/gen (correspondence)"
RUSTC = "rustc/cargo: the harness build of /repo behaves like its source"

PROPS = {}


def prop(pid, thm_modules, lanes, rule, assumptions, trusted_extra=(), expected_theorems=None,
         level_text="", level_note="", technique="", design_ref="", claimed=True):
    PROPS[pid] = {
        "thm_modules": thm_modules,
        "lanes": lanes,
        "rule": rule,
        "assumptions": list(assumptions),
        "trusted_base": [KERNEL, TRANSLATORS, LANES, RUSTC] + list(trusted_extra),
        "expected_theorems": expected_theorems,
        "level_text": level_text,
        "level_note": level_note,
        "technique": technique,
        "design_ref": design_ref,
        "claimed": claimed,
    }


# pipeline self-test (not a property of lol-html; not in MANIFEST)
prop(
    "C00",
    ["LolHtml.Basic"],
    [{"lane": "echo", "n_quick": 50, "n_thorough": 500}],
    "hex round trip self-test",
    ["none"],
    claimed=False,
)

LEX_RULE = ("lane lex: documents from a grammar over an adversarial fragment alphabet (gen/lex.py: all tokenizer constructs, "
            "truncated constructs, text-mode elements, select/template/frameset, foreign content with integration points, odd "
            "attribute syntax, random bytes) x random cut sets (none / byte-wise / 1 / 2 / k cuts / repeated cuts = empty writes) x "
            "strict on/off x capture-flag schedules indexed by tag-event number (incl. attribute-info requests); a case is "
            "non-trivial when it reaches at least one tag/comment/doctype event; distinct = distinct case line")
MODEL_SCOPE = ("modelled by hand and tied by the lex lane (not verified against the Rust text): DSL macro semantics "
               "(state_machine/mod.rs, syntax_dsl/**), lexer and tag-scanner actions, tree-builder simulator, parser loop, "
               "dispatcher, transform stream, HtmlRewriter poisoning (lean/LolHtml/Model/{SM,TreeSim,Dispatcher,Stream}.lean); "
               "translated from the Rust text on every run: the tokenizer table, character classes, sequence literals, tag lists and hashes")

prop(
    "C01",
    ["LolHtml.Thm.C01"],
    [{"lane": "lex", "n_quick": 4000, "n_thorough": 200000}],
    LEX_RULE,
    ["observing controller = tokens serialise to their raw bytes (the property's own round-trip exception for captured text), emission never disabled, nothing appended at document end",
     "runs that reach one of the model's explicit panic branches (Rust debug assertions / clamped slices) are not successful runs; their unreachability is C15's subject",
     MODEL_SCOPE],
    level_text=("Lean 4 theorem C01_passthrough: for EVERY tokenizer table, tag configuration, settings, observing controller "
                "(arbitrary capture-flag decision at every tag, i.e. arbitrary scanner/lexer switching), byte string and split into "
                "writes (empty writes included): if all calls succeed the sink bytes equal the bytes written; plus the per-write "
                "invariant sink ++ retained = written. Proved by a generic sink-preservation theorem over the DSL interpreter "
                "(Lemmas/Preserve) and a dispatcher tiling invariant (Lemmas/Tiling). The model is tied to the code by the lex "
                "correspondence lane (model vs real TransformStream on generated cases) and the direct oracle sink == input."),
    level_note=("Trusted: Lean kernel (axioms propext, Quot.sound only), the hand-written model of the dispatcher/parser glue "
                "(checked by the lex lane, not proved equal to the Rust), the DSL/tag translators. Not covered: decode/encode "
                "round-trip of captured text (hypothesis), non-observing handlers (C07)."),
    technique="Lean 4 proof (invariant + generic preservation over the interpreter) + model/implementation correspondence lane",
    design_ref="DESIGN.md section 4 C01",
)

