#!/usr/bin/env python3
"""Regenerate MANIFEST.json from vlib/props.py (claimed properties) + not_applicable reasons."""
import json, os, sys
sys.path.insert(0, os.path.dirname(os.path.abspath(__file__)))
from vlib.props import PROPS
here = os.path.dirname(os.path.abspath(__file__))
props = [json.loads(l) for l in open(os.path.join(here, "properties.jsonl"))]
old = json.load(open(os.path.join(here, "MANIFEST.json")))
NA = {}
na_path = os.path.join(here, "not_applicable.json")
if os.path.exists(na_path):
    NA = json.load(open(na_path))
checks = []
na = []
for p in props:
    pid = p["id"]
    P = PROPS.get(pid)
    if P and P.get("claimed"):
        checks.append({
            "property_id": pid,
            "quick_cmd": f"./check {pid} --tier quick",
            "thorough_cmd": f"./check {pid} --tier thorough",
            "evidence_file": f"/verif/evidence/{pid}.json",
            "replay_cmd_template": f"./check {pid} --replay {{path}}",
            "engine": "lean4-proof",
            "level_claimed": {"category": "proof", "text": P["level_text"], "design_ref": P["design_ref"]},
            "level_note": P["level_note"],
            "technique": P["technique"],
        })
    else:
        na.append({"property_id": pid, "reason": NA.get(pid, "not claimed yet: the proof machinery for this property is still being built (DESIGN.md section 8); no other technique is substituted")})
old["checks"] = checks
old["hooks"]["source_commits"] = ["3fd36b2", "de26bcc", "a6d805e", "5818432", "edbb0a0"]
old["not_applicable"] = na
old["engines"][0]["serves_properties"] = [c["property_id"] for c in checks]
json.dump(old, open(os.path.join(here, "MANIFEST.json"), "w"), indent=1)
print("claimed:", [c["property_id"] for c in checks])
