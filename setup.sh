#!/bin/sh
# Build the framework from files on disk only (offline).
set -e
cd "$(dirname "$0")"
export CARGO_NET_OFFLINE=true
python3 -c "
import sys; sys.path.insert(0,'.')
from vlib import core
ok, problems, files = core.run_translators()
print('translators:', 'ok' if ok else problems)
"
(cd lean && lake build)
(cd harness && cargo build --offline)
