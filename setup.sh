#!/bin/sh
# Build the framework from files on disk only (offline).
set -e
cd "$(dirname "$0")"
export CARGO_NET_OFFLINE=true
python3 -c "
import sys; sys.path.insert(0,'.')
from vlib import core
ok, problems, files = core.run_translators()
print('translators:', 'ok' if ok else problems)
"
(cd lean && lake build)
# build every registered theorem module once, so that the individual checks only re-check what changed
MODS=$(python3 -c "
import sys; sys.path.insert(0,'.')
from vlib.props import PROPS
print(' '.join(sorted({m for P in PROPS.values() for m in P['thm_modules']})))
")
(cd lean && lake build $MODS driver) || echo "setup: some theorem modules did not build (the checks will report which)"
(cd harness && cargo build --offline)
